/-
  Evaluating the keyword arguments of a printed leaf element gives its keyword record back.
-/
import StathamModel.Py.Eval
namespace Statham

theorem filterMap_cons_toList {α β} (f : α → Option β) (a : α) (l : List α) :
    (a :: l).filterMap f = (f a).toList ++ l.filterMap f := by
  rw [List.filterMap_cons]; cases f a <;> rfl

/-- one optional keyword argument, evaluated -/
theorem applyKwargs_opt {α} (kw : Kw) (name : String) (mk : α → PyExpr) (upd : Kw → Option α → Kw)
    (h1 : ∀ k a, setLit k name (mk a) = some (upd k (some a))) (h0 : ∀ k, upd k none = k)
    (o : Option α) (r : List (String × PyExpr)) :
    applyKwargs kw ((o.map fun a => (name, mk a)).toList ++ r) = applyKwargs (upd kw o) r := by
  cases o with
  | none => rw [h0]; rfl
  | some a => simp [applyKwargs, h1]

def uDefault (k : Kw) (o : Option JVal) : Kw := { k with default := o.or k.default }
def uConst (k : Kw) (o : Option JVal) : Kw := { k with const := o.or k.const }
def uEnum (k : Kw) (o : Option (List JVal)) : Kw := { k with enum := o.or k.enum }
def uDescription (k : Kw) (o : Option String) : Kw := { k with description := o.or k.description }
def uFormat (k : Kw) (o : Option String) : Kw := { k with format := o.or k.format }
def uPattern (k : Kw) (o : Option String) : Kw := { k with pattern := o.or k.pattern }
def uMinLength (k : Kw) (o : Option Num) : Kw := { k with minLength := o.or k.minLength }
def uMaxLength (k : Kw) (o : Option Num) : Kw := { k with maxLength := o.or k.maxLength }
def uMinimum (k : Kw) (o : Option Num) : Kw := { k with minimum := o.or k.minimum }
def uMaximum (k : Kw) (o : Option Num) : Kw := { k with maximum := o.or k.maximum }
def uExMin (k : Kw) (o : Option Num) : Kw := { k with exclusiveMinimum := o.or k.exclusiveMinimum }
def uExMax (k : Kw) (o : Option Num) : Kw := { k with exclusiveMaximum := o.or k.exclusiveMaximum }
def uMultipleOf (k : Kw) (o : Option Num) : Kw := { k with multipleOf := o.or k.multipleOf }

theorem kwargs_basic (sig : List Gen.Param)
    (hsig : sig = [⟨"default", .keywordOnly, .notPassed⟩, ⟨"const", .keywordOnly, .notPassed⟩, ⟨"enum", .keywordOnly, .notPassed⟩,
      ⟨"description", .keywordOnly, .notPassed⟩])
    (d c : Option JVal) (e : Option (List JVal)) (ds : Option String) :
    applyKwargs {} (kwargsOf sig { default := d, const := c, enum := e, description := ds } {}) =
      some { default := d, const := c, enum := e, description := ds } := by
  subst hsig
  simp only [kwargsOf, List.filter_cons, List.filter_nil, beq_self_eq_true, if_true, filterMap_cons_toList,
    List.filterMap_nil, kwExpr, Option.map_map, Function.comp_def]
  rw [applyKwargs_opt _ "default" PyExpr.lit uDefault (fun _ _ => rfl) (fun _ => rfl),
    applyKwargs_opt _ "const" PyExpr.lit uConst (fun _ _ => rfl) (fun _ => rfl),
    applyKwargs_opt _ "enum" (fun l => PyExpr.lit (.arr l)) uEnum (fun _ _ => rfl) (fun _ => rfl),
    applyKwargs_opt _ "description" (fun s => PyExpr.lit (.str s)) uDescription (fun _ _ => rfl) (fun _ => rfl)]
  simp [applyKwargs, uDefault, uConst, uEnum, uDescription]

theorem kwargs_string (d c : Option JVal) (e : Option (List JVal)) (f p : Option String) (mn mx : Option Num)
    (ds : Option String) :
    applyKwargs {} (kwargsOf Gen.sigString
        { default := d, const := c, enum := e, format := f, pattern := p, minLength := mn, maxLength := mx, description := ds } {}) =
      some { default := d, const := c, enum := e, format := f, pattern := p, minLength := mn, maxLength := mx, description := ds } := by
  simp only [kwargsOf, Gen.sigString, List.filter_cons, List.filter_nil, beq_self_eq_true, if_true, filterMap_cons_toList,
    List.filterMap_nil, kwExpr, Option.map_map, Function.comp_def, numE]
  rw [applyKwargs_opt _ "default" PyExpr.lit uDefault (fun _ _ => rfl) (fun _ => rfl),
    applyKwargs_opt _ "const" PyExpr.lit uConst (fun _ _ => rfl) (fun _ => rfl),
    applyKwargs_opt _ "enum" (fun l => PyExpr.lit (.arr l)) uEnum (fun _ _ => rfl) (fun _ => rfl),
    applyKwargs_opt _ "format" (fun s => PyExpr.lit (.str s)) uFormat (fun _ _ => rfl) (fun _ => rfl),
    applyKwargs_opt _ "pattern" (fun s => PyExpr.lit (.str s)) uPattern (fun _ _ => rfl) (fun _ => rfl),
    applyKwargs_opt _ "minLength" (fun n => PyExpr.lit (.num n)) uMinLength (fun _ _ => rfl) (fun _ => rfl),
    applyKwargs_opt _ "maxLength" (fun n => PyExpr.lit (.num n)) uMaxLength (fun _ _ => rfl) (fun _ => rfl),
    applyKwargs_opt _ "description" (fun s => PyExpr.lit (.str s)) uDescription (fun _ _ => rfl) (fun _ => rfl)]
  simp [applyKwargs, uDefault, uConst, uEnum, uFormat, uPattern, uMinLength, uMaxLength, uDescription]

theorem kwargs_numeric (d c : Option JVal) (e : Option (List JVal)) (a b x y m : Option Num) (ds : Option String) :
    applyKwargs {} (kwargsOf Gen.sigNumeric
        { default := d, const := c, enum := e, minimum := a, maximum := b, exclusiveMinimum := x, exclusiveMaximum := y,
          multipleOf := m, description := ds } {}) =
      some { default := d, const := c, enum := e, minimum := a, maximum := b, exclusiveMinimum := x, exclusiveMaximum := y,
             multipleOf := m, description := ds } := by
  simp only [kwargsOf, Gen.sigNumeric, List.filter_cons, List.filter_nil, beq_self_eq_true, if_true, filterMap_cons_toList,
    List.filterMap_nil, kwExpr, Option.map_map, Function.comp_def, numE]
  rw [applyKwargs_opt _ "default" PyExpr.lit uDefault (fun _ _ => rfl) (fun _ => rfl),
    applyKwargs_opt _ "const" PyExpr.lit uConst (fun _ _ => rfl) (fun _ => rfl),
    applyKwargs_opt _ "enum" (fun l => PyExpr.lit (.arr l)) uEnum (fun _ _ => rfl) (fun _ => rfl),
    applyKwargs_opt _ "minimum" (fun n => PyExpr.lit (.num n)) uMinimum (fun _ _ => rfl) (fun _ => rfl),
    applyKwargs_opt _ "maximum" (fun n => PyExpr.lit (.num n)) uMaximum (fun _ _ => rfl) (fun _ => rfl),
    applyKwargs_opt _ "exclusiveMinimum" (fun n => PyExpr.lit (.num n)) uExMin (fun _ _ => rfl) (fun _ => rfl),
    applyKwargs_opt _ "exclusiveMaximum" (fun n => PyExpr.lit (.num n)) uExMax (fun _ _ => rfl) (fun _ => rfl),
    applyKwargs_opt _ "multipleOf" (fun n => PyExpr.lit (.num n)) uMultipleOf (fun _ _ => rfl) (fun _ => rfl),
    applyKwargs_opt _ "description" (fun s => PyExpr.lit (.str s)) uDescription (fun _ _ => rfl) (fun _ => rfl)]
  simp [applyKwargs, uDefault, uConst, uEnum, uMinimum, uMaximum, uExMin, uExMax, uMultipleOf, uDescription]


theorem decodeStrs_map (l : List String) : decodeStrs (l.map JVal.str) = some l := by
  induction l with
  | nil => rfl
  | cons a r ih => simp [decodeStrs, ih]

/-- a keyword printed only when a flag has its non-default value -/
theorem applyKwargs_flag (kw : Kw) (name : String) (e : PyExpr) (upd : Kw → Bool → Kw)
    (h1 : ∀ k, setLit k name e = some (upd k true)) (h0 : ∀ k, upd k false = k) (b : Bool) (r : List (String × PyExpr)) :
    applyKwargs kw ((Option.map (fun x => (name, x)) (if b = true then some e else none)).toList ++ r) =
      applyKwargs (upd kw b) r := by
  cases b with
  | false => simp [h0]
  | true => simp [applyKwargs, h1]

theorem applyKwargs_nflag (kw : Kw) (name : String) (e : PyExpr) (upd : Kw → Bool → Kw)
    (h1 : ∀ k, setLit k name e = some (upd k false)) (h0 : ∀ k, upd k true = k) (b : Bool) (r : List (String × PyExpr)) :
    applyKwargs kw ((Option.map (fun x => (name, x)) (if b = true then none else some e)).toList ++ r) =
      applyKwargs (upd kw b) r := by
  cases b with
  | true => simp [h0]
  | false => simp [applyKwargs, h1]

def uMinItems (k : Kw) (o : Option Num) : Kw := { k with minItems := o.or k.minItems }
def uMaxItems (k : Kw) (o : Option Num) : Kw := { k with maxItems := o.or k.maxItems }
def uMinProps (k : Kw) (o : Option Num) : Kw := { k with minProperties := o.or k.minProperties }
def uMaxProps (k : Kw) (o : Option Num) : Kw := { k with maxProperties := o.or k.maxProperties }
def uRequired (k : Kw) (o : Option (List String)) : Kw := { k with required := o.or k.required }
def uUnique (k : Kw) (b : Bool) : Kw := { k with uniqueItems := b || k.uniqueItems }
def uAddItems (k : Kw) (b : Bool) : Kw := { k with addItemsB := b && k.addItemsB }
def uAddProps (k : Kw) (b : Bool) : Kw := { k with addPropsB := b && k.addPropsB }
def uHasProps (k : Kw) (b : Bool) : Kw := { k with hasProps := b || k.hasProps }
def uHasPat (k : Kw) (b : Bool) : Kw := { k with hasPatProps := b || k.hasPatProps }
def uHasDeps (k : Kw) (b : Bool) : Kw := { k with hasDeps := b || k.hasDeps }
def uTuple (k : Kw) (b : Bool) : Kw := { k with itemsKind := if b then .tuple else k.itemsKind }

/-- every keyword of a generic `Element` that does not hold a sub-element -/
def leafKw (d c : Option JVal) (e : Option (List JVal)) (tuple addI : Bool) (mnI mxI : Option Num) (uniq : Bool)
    (a b x y m : Option Num) (f p : Option String) (mnL mxL : Option Num) (req : Option (List String))
    (hp hpp addP : Bool) (mnP mxP : Option Num) (hd : Bool) (ds : Option String) : Kw :=
  { default := d, const := c, enum := e, itemsKind := (if tuple then ItemsKind.tuple else ItemsKind.none), addItemsB := addI,
    minItems := mnI, maxItems := mxI, uniqueItems := uniq, minimum := a, maximum := b, exclusiveMinimum := x,
    exclusiveMaximum := y, multipleOf := m, format := f, pattern := p, minLength := mnL, maxLength := mxL, required := req,
    hasProps := hp, hasPatProps := hpp, addPropsB := addP, minProperties := mnP, maxProperties := mxP, hasDeps := hd,
    description := ds }

theorem applyKwargs_one (kw kw' : Kw) (name : String) (e : PyExpr) (h : setLit kw name e = some kw') (r : List (String × PyExpr)) :
    applyKwargs kw ([(name, e)] ++ r) = applyKwargs kw' r := by
  simp [applyKwargs, h]

theorem kwargs_element (d c : Option JVal) (e : Option (List JVal)) (tuple addI : Bool) (mnI mxI : Option Num) (uniq : Bool)
    (a b x y m : Option Num) (f p : Option String) (mnL mxL : Option Num) (req : Option (List String))
    (hp hpp addP : Bool) (mnP mxP : Option Num) (hd : Bool) (ds : Option String) :
    applyKwargs {} (kwargsOf Gen.sigElement (leafKw d c e tuple addI mnI mxI uniq a b x y m f p mnL mxL req hp hpp addP mnP mxP hd ds) {}) =
      some (leafKw d c e tuple addI mnI mxI uniq a b x y m f p mnL mxL req hp hpp addP mnP mxP hd ds) := by
  have tail : ∀ (k0 : Kw), applyKwargs k0
      ((Option.map (fun e => ("additionalItems", e)) (if addI = true then none else some (PyExpr.lit (JVal.bool false)))).toList ++
        ((Option.map (fun x => ("minItems", PyExpr.lit (JVal.num x))) mnI).toList ++
          ((Option.map (fun x => ("maxItems", PyExpr.lit (JVal.num x))) mxI).toList ++
            ((Option.map (fun e => ("uniqueItems", e)) (if uniq = true then some (PyExpr.lit (JVal.bool true)) else none)).toList ++
              ((Option.map (fun x => ("minimum", PyExpr.lit (JVal.num x))) a).toList ++
                ((Option.map (fun x => ("maximum", PyExpr.lit (JVal.num x))) b).toList ++
                  ((Option.map (fun x => ("exclusiveMinimum", PyExpr.lit (JVal.num x))) x).toList ++
                    ((Option.map (fun x => ("exclusiveMaximum", PyExpr.lit (JVal.num x))) y).toList ++
                      ((Option.map (fun x => ("multipleOf", PyExpr.lit (JVal.num x))) m).toList ++
                        ((Option.map (fun x => ("format", PyExpr.lit (JVal.str x))) f).toList ++
                          ((Option.map (fun x => ("pattern", PyExpr.lit (JVal.str x))) p).toList ++
                            ((Option.map (fun x => ("minLength", PyExpr.lit (JVal.num x))) mnL).toList ++
                              ((Option.map (fun x => ("maxLength", PyExpr.lit (JVal.num x))) mxL).toList ++
                                ((Option.map (fun x => ("required", PyExpr.lit (JVal.arr (List.map JVal.str x)))) req).toList ++
                                  ((Option.map (fun e => ("properties", e)) (if hp = true then some (PyExpr.dict []) else none)).toList ++
                                    ((Option.map (fun e => ("patternProperties", e)) (if hpp = true then some (PyExpr.dict []) else none)).toList ++
                                      ((Option.map (fun e => ("additionalProperties", e)) (if addP = true then none else some (PyExpr.lit (JVal.bool false)))).toList ++
                                        ((Option.map (fun x => ("minProperties", PyExpr.lit (JVal.num x))) mnP).toList ++
                                          ((Option.map (fun x => ("maxProperties", PyExpr.lit (JVal.num x))) mxP).toList ++
                                            ((Option.map (fun e => ("dependencies", e)) (if hd = true then some (PyExpr.dict []) else none)).toList ++
                                              ((Option.map (fun x => ("description", PyExpr.lit (JVal.str x))) ds).toList ++ []))))))))))))))))))))) =
      some (uDescription (uHasDeps (uMaxProps (uMinProps (uAddProps (uHasPat (uHasProps (uRequired (uMaxLength (uMinLength (uPattern (uFormat
        (uMultipleOf (uExMax (uExMin (uMaximum (uMinimum (uUnique (uMaxItems (uMinItems (uAddItems k0 addI) mnI) mxI) uniq) a) b) x) y) m) f) p)
        mnL) mxL) req) hp) hpp) addP) mnP) mxP) hd) ds) := by
    intro k0
    rw [applyKwargs_nflag _ "additionalItems" (PyExpr.lit (.bool false)) uAddItems (fun _ => rfl) (fun k => by simp [uAddItems]),
      applyKwargs_opt _ "minItems" (fun n => PyExpr.lit (.num n)) uMinItems (fun _ _ => rfl) (fun _ => rfl),
      applyKwargs_opt _ "maxItems" (fun n => PyExpr.lit (.num n)) uMaxItems (fun _ _ => rfl) (fun _ => rfl),
      applyKwargs_flag _ "uniqueItems" (PyExpr.lit (.bool true)) uUnique (fun _ => rfl) (fun k => by simp [uUnique]),
      applyKwargs_opt _ "minimum" (fun n => PyExpr.lit (.num n)) uMinimum (fun _ _ => rfl) (fun _ => rfl),
      applyKwargs_opt _ "maximum" (fun n => PyExpr.lit (.num n)) uMaximum (fun _ _ => rfl) (fun _ => rfl),
      applyKwargs_opt _ "exclusiveMinimum" (fun n => PyExpr.lit (.num n)) uExMin (fun _ _ => rfl) (fun _ => rfl),
      applyKwargs_opt _ "exclusiveMaximum" (fun n => PyExpr.lit (.num n)) uExMax (fun _ _ => rfl) (fun _ => rfl),
      applyKwargs_opt _ "multipleOf" (fun n => PyExpr.lit (.num n)) uMultipleOf (fun _ _ => rfl) (fun _ => rfl),
      applyKwargs_opt _ "format" (fun s => PyExpr.lit (.str s)) uFormat (fun _ _ => rfl) (fun _ => rfl),
      applyKwargs_opt _ "pattern" (fun s => PyExpr.lit (.str s)) uPattern (fun _ _ => rfl) (fun _ => rfl),
      applyKwargs_opt _ "minLength" (fun n => PyExpr.lit (.num n)) uMinLength (fun _ _ => rfl) (fun _ => rfl),
      applyKwargs_opt _ "maxLength" (fun n => PyExpr.lit (.num n)) uMaxLength (fun _ _ => rfl) (fun _ => rfl),
      applyKwargs_opt _ "required" (fun l => PyExpr.lit (.arr (l.map JVal.str))) uRequired
        (fun k a => by simp [setLit, decodeStrs_map, uRequired]) (fun _ => rfl),
      applyKwargs_flag _ "properties" (PyExpr.dict []) uHasProps (fun _ => rfl) (fun k => by simp [uHasProps]),
      applyKwargs_flag _ "patternProperties" (PyExpr.dict []) uHasPat (fun _ => rfl) (fun k => by simp [uHasPat]),
      applyKwargs_nflag _ "additionalProperties" (PyExpr.lit (.bool false)) uAddProps (fun _ => rfl) (fun k => by simp [uAddProps]),
      applyKwargs_opt _ "minProperties" (fun n => PyExpr.lit (.num n)) uMinProps (fun _ _ => rfl) (fun _ => rfl),
      applyKwargs_opt _ "maxProperties" (fun n => PyExpr.lit (.num n)) uMaxProps (fun _ _ => rfl) (fun _ => rfl),
      applyKwargs_flag _ "dependencies" (PyExpr.dict []) uHasDeps (fun _ => rfl) (fun k => by simp [uHasDeps]),
      applyKwargs_opt _ "description" (fun s => PyExpr.lit (.str s)) uDescription (fun _ _ => rfl) (fun _ => rfl)]
    rfl
  cases tuple
  · simp only [leafKw, kwargsOf, Gen.sigElement, List.filter_cons, List.filter_nil, beq_self_eq_true, if_true, filterMap_cons_toList,
      List.filterMap_nil, kwExpr, Option.map_map, Function.comp_def, numE, List.head?_nil, List.map_nil, Bool.false_eq_true, if_false,
      Option.map_none, Option.toList_none, List.nil_append]
    rw [applyKwargs_opt _ "default" PyExpr.lit uDefault (fun _ _ => rfl) (fun _ => rfl),
      applyKwargs_opt _ "const" PyExpr.lit uConst (fun _ _ => rfl) (fun _ => rfl),
      applyKwargs_opt _ "enum" (fun l => PyExpr.lit (.arr l)) uEnum (fun _ _ => rfl) (fun _ => rfl), tail]
    simp [uDefault, uConst, uEnum, uAddItems, uMinItems, uMaxItems, uUnique, uMinimum, uMaximum,
      uExMin, uExMax, uMultipleOf, uFormat, uPattern, uMinLength, uMaxLength, uRequired, uHasProps, uHasPat, uAddProps, uMinProps,
      uMaxProps, uHasDeps, uDescription]
  · simp only [leafKw, kwargsOf, Gen.sigElement, List.filter_cons, List.filter_nil, beq_self_eq_true, if_true, filterMap_cons_toList,
      List.filterMap_nil, kwExpr, Option.map_map, Function.comp_def, numE, List.head?_nil, List.map_nil,
      Option.map_none, Option.toList_none, List.nil_append, Option.map_some, Option.toList_some]
    rw [applyKwargs_opt _ "default" PyExpr.lit uDefault (fun _ _ => rfl) (fun _ => rfl),
      applyKwargs_opt _ "const" PyExpr.lit uConst (fun _ _ => rfl) (fun _ => rfl),
      applyKwargs_opt _ "enum" (fun l => PyExpr.lit (.arr l)) uEnum (fun _ _ => rfl) (fun _ => rfl),
      applyKwargs_one _ (uTuple (uEnum (uConst (uDefault {} d) c) e) true) "items" (PyExpr.list []) rfl, tail]
    simp [uDefault, uConst, uEnum, uTuple, uAddItems, uMinItems, uMaxItems, uUnique, uMinimum, uMaximum,
      uExMin, uExMax, uMultipleOf, uFormat, uPattern, uMinLength, uMaxLength, uRequired, uHasProps, uHasPat, uAddProps, uMinProps,
      uMaxProps, uHasDeps, uDescription]

end Statham
