/-
  Verdicts of the elements the parser manufactures: `Element()`, `Nothing()`, compositions,
  `Not`, and the effect of setting a default.
-/
import StathamModel.Lemmas.VAlg
import StathamModel.Eq
import StathamModel.Parse
import StathamModel.Lemmas.ListAux
namespace Statham

/-- a verdict function refines a Boolean validity function; not-passed never rejects -/
def RC (f : CallG V) (g : JVal → Bool) : Prop :=
  (∀ x, distinctKeys x = true → R (f (.val x)) (g x)) ∧ f .notPassed ≠ .reject

theorem accCore_notPassed_ne_reject (env : Env) (c : Cls) (kw : Kw) (sub : VSub) :
    accCore env c kw sub .notPassed ≠ .reject := by
  unfold accCore
  simp only
  cases kw.default with
  | none => simp
  | some d => simp only; cases createV env c kw sub d <;> simp

theorem acc_notPassed_ne_reject (env : Env) (e : Elem) : e.acc env .notPassed ≠ .reject := by
  cases e with
  | mk c kw items addI cont props pats addP pn deps els =>
    rw [Elem.acc]; exact accCore_notPassed_ne_reject _ _ _ _

/-- validators of an element whose validation keywords are all at their defaults -/
def Kw.plain (kw : Kw) : Prop :=
  kw.const = none ∧ kw.enum = none ∧ kw.itemsKind = .none ∧ kw.minItems = none ∧ kw.maxItems = none ∧
  kw.uniqueItems = false ∧ kw.minimum = none ∧ kw.maximum = none ∧ kw.exclusiveMinimum = none ∧
  kw.exclusiveMaximum = none ∧ kw.multipleOf = none ∧ kw.format = none ∧ kw.pattern = none ∧
  kw.minLength = none ∧ kw.maxLength = none ∧ kw.required = none ∧ kw.minProperties = none ∧
  kw.maxProperties = none

theorem plain_default (d : Option JVal) : Kw.plain { default := d } := by
  simp [Kw.plain]

theorem validators_plain (env : Env) (c : Cls) (kw : Kw) (sub : VSub) (v : JVal)
    (hk : kw.plain) (h1 : sub.contains = none) (h2 : sub.propNames = none) (h3 : sub.deps = [])
    (h4 : sub.props = []) (hA : ∀ kvs, additionalPropsCheck env c kw sub kvs = .pass) :
    validators id env c kw sub v = V.ofBool (typeOk c v) := by
  obtain ⟨a1, a2, a3, a4, a5, a6, a7, a8, a9, a10, a11, a12, a13, a14, a15, a16, a17, a18⟩ := hk
  unfold validators literalChecks
  cases v <;>
    simp [a1, a2, a3, a4, a5, a6, a7, a8, a9, a10, a11, a12, a13, a14, a15, a16, a17, a18, h1, h2, h3, h4,
      optCheck, numChecks, strChecks, arrChecks, objChecks, additionalItemsCheck, containsCheck,
      propNamesCheck, depElemsCheck, depNamesOf, requiredNames, hA]

theorem itemsCallFrom_none (kw : Kw) (sub : VSub) (h : kw.itemsKind = .none) (xs : List JVal) (i : Nat) :
    V.all id (itemsCallFrom vAlg kw sub i xs) = .pass := by
  induction xs generalizing i with
  | nil => rfl
  | cons x xs ih =>
    rw [itemsCallFrom, V.all_cons, ih]
    simp [itemCall, h, vAlg, trivialV]

theorem propsOuts_open (env : Env) (kw : Kw) (sub : VSub) (kvs : List (String × JVal))
    (h1 : sub.props = []) (h2 : sub.patProps = []) (h3 : sub.addProps = none) (h4 : kw.addPropsB = true) :
    V.all (fun o => o.2) (propsOuts vAlg env kw sub kvs) = .pass := by
  rw [V.all_eq_pass]
  intro o ho
  unfold propsOuts at ho
  obtain ⟨k, _, rfl⟩ := List.mem_map.mp ho
  simp [resolveCall, findDeclared, matchingPats, additionalPropCall, h1, h2, h3, h4, vAlg, trivialV]

/-- `Element()` (and anything `==` to it) accepts everything -/
theorem acc_trivial_core (env : Env) (kw : Kw) (sub : VSub) (a : Arg) (hk : kw.plain)
    (hb : kw.addPropsB = true)
    (h1 : sub.contains = none) (h2 : sub.propNames = none) (h3 : sub.deps = [])
    (h4 : sub.props = []) (h5 : sub.patProps = []) (h6 : sub.addProps = none) :
    accCore env .element kw sub a = .pass := by
  have hv : ∀ v, createV env .element kw sub v = .pass := by
    intro v
    unfold createV
    rw [validators_plain env .element kw sub v hk h1 h2 h3 h4 (fun _ => rfl)]
    simp only [typeOk, V.ofBool_true, V.and_pass_left, constructV]
    cases v with
    | arr xs => exact itemsCallFrom_none kw sub hk.2.2.1 xs 0
    | obj kvs => exact propsOuts_open env kw sub kvs h4 h5 h6 hb
    | _ => rfl
  unfold accCore
  cases a with
  | val v => exact hv v
  | notPassed =>
    simp only
    cases kw.default with
    | none => rfl
    | some d => simp only [hv d]

theorem acc_trivial (env : Env) (a : Arg) : Elem.trivial.acc env a = .pass := by
  rw [Elem.trivial, Elem.leaf, Elem.acc]
  apply acc_trivial_core <;> first | rfl | exact plain_default none

theorem Kw.plain_of_isDefault {kw : Kw} (h : kw.isDefault = true) : kw.plain ∧ kw.addPropsB = true := by
  unfold Kw.isDefault Kw.eq at h
  simp only [Bool.and_eq_true] at h
  obtain ⟨⟨⟨⟨⟨⟨⟨⟨⟨⟨⟨⟨⟨⟨⟨⟨⟨⟨⟨⟨⟨⟨⟨⟨h1, h2⟩, h3⟩, h4⟩, h5⟩, h6⟩, h7⟩, h8⟩, h9⟩, h10⟩, h11⟩, h12⟩, h13⟩, h14⟩, h15⟩, h16⟩, h17⟩, h18⟩, h19⟩, h20⟩, h21⟩, h22⟩, h23⟩, h24⟩, h25⟩ := h
  have o : ∀ {α} (f : α → α → Bool) (x : Option α), optEq f x none = true → x = none := by
    intro α f x hx; cases x <;> simp_all [optEq]
  refine ⟨⟨o _ _ h2, o _ _ h3, ?_, o _ _ h6, o _ _ h7, ?_, o _ _ h9, o _ _ h10, o _ _ h11, o _ _ h12,
    o _ _ h13, ?_, ?_, o _ _ h16, o _ _ h17, ?_, o _ _ h22, o _ _ h23⟩, ?_⟩
  · simpa using h4
  · simpa using h8
  · simpa using h14
  · simpa using h15
  · simpa using h18
  · simpa using h21

theorem acc_isTrivial (env : Env) (e : Elem) (h : e.isTrivial = true) (a : Arg) : e.acc env a = .pass := by
  cases e with
  | mk c kw items addI cont props pats addP pn deps els =>
    simp only [Elem.isTrivial, Elem.cls, Elem.kw, Elem.items, Elem.addItems, Elem.contains, Elem.props,
      Elem.patProps, Elem.addProps, Elem.propNames, Elem.deps, Elem.elements, Bool.and_eq_true,
      beq_iff_eq, List.isEmpty_iff, Option.isNone_iff_eq_none] at h
    obtain ⟨⟨⟨⟨⟨⟨⟨⟨⟨⟨hc, hk⟩, _⟩, _⟩, hcont⟩, hprops⟩, hpats⟩, haddP⟩, hpn⟩, hdeps⟩, _⟩ := h
    subst hc hcont hprops hpats haddP hpn hdeps
    obtain ⟨hp, hb⟩ := Kw.plain_of_isDefault hk
    rw [Elem.acc]
    apply acc_trivial_core <;> first | rfl | exact hp | exact hb

theorem acc_nothing_val (env : Env) (v : JVal) : Elem.nothing.acc env (.val v) = .reject := by
  rw [Elem.nothing, Elem.leaf, Elem.acc]
  simp only [accCore, createV]
  rw [validators_plain env .nothing _ _ v (plain_default none) rfl rfl rfl rfl (fun _ => rfl)]
  simp only [typeOk, V.ofBool_false, constructV]
  cases v <;> simp [V.and, accList, accOpt, itemsCallFrom_none, propsOuts_open, accProps, accKeyed]

/-! ### defaults do not matter for passed values -/

theorem itemsCallFrom_default {ρ} (alg : Alg ρ) (kw : Kw) (d : Option JVal) (sub : SubG ρ) (xs : List JVal) (i : Nat) :
    itemsCallFrom alg { kw with default := d } sub i xs = itemsCallFrom alg kw sub i xs := by
  induction xs generalizing i with
  | nil => rfl
  | cons x xs ih => rw [itemsCallFrom, itemsCallFrom, ih]; rfl

theorem propsOuts_default {ρ} (alg : Alg ρ) (env : Env) (kw : Kw) (d : Option JVal) (sub : SubG ρ)
    (kvs : List (String × JVal)) :
    propsOuts alg env { kw with default := d } sub kvs = propsOuts alg env kw sub kvs := rfl

theorem createV_default (env : Env) (c : Cls) (kw : Kw) (sub : VSub) (v : JVal) (d : Option JVal) :
    createV env c { kw with default := d } sub v = createV env c kw sub v := by
  unfold createV validators constructV
  cases v <;> cases c <;> simp only [itemsCallFrom_default, propsOuts_default] <;> rfl

theorem acc_withDefault_val (env : Env) (e : Elem) (d : Option JVal) (v : JVal) :
    (e.withDefault d).acc env (.val v) = e.acc env (.val v) := by
  cases e with
  | mk c kw items addI cont props pats addP pn deps els =>
    rw [Elem.withDefault, Elem.acc, Elem.acc]
    simp only [accCore]
    exact createV_default ..

theorem RC_withDefault {env : Env} {e : Elem} {g : JVal → Bool} (h : RC (e.acc env) g) (d : Option JVal) :
    RC ((e.withDefault d).acc env) g :=
  ⟨fun x hx => by rw [acc_withDefault_val]; exact h.1 x hx, acc_notPassed_ne_reject env _⟩

/-! ### compositions -/

def isCompCls : Cls → Bool
  | .anyOf | .oneOf | .allOf => true
  | _ => false

theorem acc_compose_val (env : Env) (c : Cls) (hc : isCompCls c = true) (es : List Elem)
    (d : Option JVal) (v : JVal) :
    (Elem.compose c es d).acc env (.val v) = attemptV c ((accList env es).map fun f => f (.val v)) := by
  rw [Elem.compose, Elem.acc]
  simp only [accCore, createV]
  rw [validators_plain env c _ _ v (plain_default d) rfl rfl rfl rfl (by intro kvs; cases c <;> simp [additionalPropsCheck, accOpt])]
  cases c <;> simp [isCompCls] at hc <;> simp [typeOk, constructV]

theorem acc_not_val (env : Env) (e : Elem) (v : JVal) :
    (Elem.mk .not {} [] none none [] [] none none [] [e]).acc env (.val v) = notV (e.acc env (.val v)) := by
  rw [Elem.acc]
  simp only [accCore, createV]
  rw [validators_plain env .not _ _ v (plain_default none) rfl rfl rfl rfl (by intro kvs; simp [additionalPropsCheck, accOpt])]
  simp [typeOk, constructV, accList]

/-- related lists of elements and validity functions -/
def RCs (env : Env) (es : List Elem) (gs : List (JVal → Bool)) : Prop :=
  All2 (fun e g => RC (e.acc env) g) es gs

theorem RCs.vals {env : Env} {es : List Elem} {gs : List (JVal → Bool)} (h : RCs env es gs) (v : JVal)
    (hv : distinctKeys v = true) :
    All2 R ((accList env es).map fun f => f (.val v)) (gs.map fun g => g v) := by
  induction h with
  | nil => rw [accList]; exact All2.nil
  | cons hr _ ih => rw [accList]; exact All2.cons (hr.1 v hv) ih

theorem RC_trivial (env : Env) : RC (Elem.trivial.acc env) (fun _ => true) :=
  ⟨fun x _ => by rw [acc_trivial]; exact R.pass, by rw [acc_trivial]; simp⟩

theorem RC_nothing (env : Env) : RC (Elem.nothing.acc env) (fun _ => false) :=
  ⟨fun x _ => by rw [acc_nothing_val]; exact R.reject, acc_notPassed_ne_reject env _⟩

theorem RC.congr {f : CallG V} {g g' : JVal → Bool} (h : RC f g) (e : ∀ x, g x = g' x) : RC f g' :=
  ⟨fun x hx => (h.1 x hx).congr (e x), h.2⟩

theorem any_map_id {α : Type} (gs : List (α → Bool)) (v : α) : (gs.map fun g => g v).any id = gs.any fun g => g v := by
  induction gs with
  | nil => rfl
  | cons g gs ih => simp [ih]

theorem all_map_id {α : Type} (gs : List (α → Bool)) (v : α) : (gs.map fun g => g v).all id = gs.all fun g => g v := by
  induction gs with
  | nil => rfl
  | cons g gs ih => simp [ih]

theorem filter_map_id {α : Type} (gs : List (α → Bool)) (v : α) :
    ((gs.map fun g => g v).filter id).length = (gs.filter fun g => g v).length := by
  induction gs with
  | nil => rfl
  | cons g gs ih => cases h : g v <;> simp [h, ih, List.filter]

/-- `_compose_elements(AnyOf, …)` on a non-empty list -/
theorem RC_composeAny {env : Env} {es : List Elem} {gs : List (JVal → Bool)} (h : RCs env es gs)
    (hne : es ≠ []) : RC ((composeElements .anyOf es).acc env) (fun v => gs.any fun g => g v) := by
  refine ⟨fun v hv => ?_, acc_notPassed_ne_reject env _⟩
  cases h with
  | nil => exact absurd rfl hne
  | cons hr ht =>
    cases ht with
    | nil => simpa [composeElements] using hr.1 v hv
    | cons hr2 ht2 =>
      simp only [composeElements]
      rw [acc_compose_val env .anyOf rfl, ← any_map_id]
      exact R_attempt_anyOf (RCs.vals (All2.cons hr (All2.cons hr2 ht2)) v hv)

theorem RC_composeOne {env : Env} {es : List Elem} {gs : List (JVal → Bool)} (h : RCs env es gs)
    (hne : es ≠ []) :
    RC ((composeElements .oneOf es).acc env) (fun v => (gs.filter fun g => g v).length == 1) := by
  refine ⟨fun v hv => ?_, acc_notPassed_ne_reject env _⟩
  cases h with
  | nil => exact absurd rfl hne
  | @cons e g es gs hr ht =>
    cases ht with
    | nil =>
      simp only [composeElements]
      refine (hr.1 v hv).congr ?_
      cases hg : g v <;> simp [hg, List.filter]
    | cons hr2 ht2 =>
      simp only [composeElements]
      rw [acc_compose_val env .oneOf rfl, ← filter_map_id]
      exact R_attempt_oneOf (RCs.vals (All2.cons hr (All2.cons hr2 ht2)) v hv)

theorem RC_composeAll {env : Env} {es : List Elem} {gs : List (JVal → Bool)} (h : RCs env es gs) :
    RC ((composeElements .allOf es).acc env) (fun v => gs.all fun g => g v) := by
  refine ⟨fun v hv => ?_, acc_notPassed_ne_reject env _⟩
  cases h with
  | nil => simp only [composeElements, List.all_nil]; rw [acc_trivial]; exact R.pass
  | cons hr ht =>
    cases ht with
    | nil => simpa [composeElements] using hr.1 v hv
    | cons hr2 ht2 =>
      simp only [composeElements]
      rw [acc_compose_val env .allOf rfl, ← all_map_id]
      exact R_attempt_allOf (RCs.vals (All2.cons hr (All2.cons hr2 ht2)) v hv) (by simp)

/-- dropping the members that are `== Element()` does not change an `allOf` -/
theorem RCs_filter_trivial {env : Env} {es : List Elem} {gs : List (JVal → Bool)} (h : RCs env es gs) :
    ∃ gs', RCs env (es.filter fun e => !e.isTrivial) gs' ∧
      ∀ v, distinctKeys v = true → (gs'.all fun g => g v) = (gs.all fun g => g v) := by
  induction h with
  | nil => exact ⟨[], All2.nil, fun _ _ => rfl⟩
  | @cons e g es gs hr _ ih =>
    obtain ⟨gs', h', heq⟩ := ih
    by_cases ht : e.isTrivial = true
    · refine ⟨gs', by simpa [List.filter, ht] using h', fun v hv => ?_⟩
      have : g v = true := by
        have := hr.1 v hv
        rw [acc_isTrivial env e ht] at this
        rcases this with h0 | h0
        · cases h0
        · exact V.ofBool_eq_pass.mp h0.symm
      simp [heq v hv, this]
    · refine ⟨g :: gs', by
        have := (All2.cons (r := fun (e : Elem) g => RC (e.acc env) g) hr h')
        simpa [List.filter, ht, RCs] using this, fun v hv => ?_⟩
      simp [heq v hv]

end Statham
