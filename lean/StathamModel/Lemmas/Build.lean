/-
  `_parse_properties` / `_parse_object` property tables when no two JSON names collapse onto
  one Python attribute name: the tables are then plain maps of the declared properties,
  followed by the synthetic required ones.
-/
import StathamModel.Lemmas.ListAux
namespace Statham

def mkKey (cx : PCtx) (req : List String) (n : String) : Key :=
  { name := attrName cx.ci cx.reserved n, required := req.contains n, source := some n }

def synthKey (cx : PCtx) (n : String) : Key :=
  { name := attrName cx.ci cx.reserved n, required := true, source := some n }

theorem src_mkKey (cx : PCtx) (req : List String) (n : String) (h : n ≠ "") : (mkKey cx req n).src = n := by
  simp [mkKey, Key.src, h]

theorem src_synthKey (cx : PCtx) (n : String) (h : n ≠ "") : (synthKey cx n).src = n := by
  simp [synthKey, Key.src, h]

theorem propsInsert_fresh (d : List (Key × Elem)) (k : Key) (e : Elem)
    (h : ∀ p ∈ d, p.1.name ≠ k.name) : propsInsert d k e = d ++ [(k, e)] := by
  induction d with
  | nil => rfl
  | cons p ps ih =>
    obtain ⟨k', e'⟩ := p
    have h1 : k'.name ≠ k.name := h (k', e') (List.mem_cons_self ..)
    simp only [propsInsert, h1, if_false, List.cons_append]
    rw [ih fun q hq => h q (List.mem_cons_of_mem _ hq)]

theorem distinct_append_ne {α} (acc rest : List (String × α)) (kv q : String × α)
    (hd : distinct ((acc ++ kv :: rest).map (·.1)) = true) (hq : q ∈ acc) : q.1 ≠ kv.1 := by
  induction acc with
  | nil => cases hq
  | cons a acc ih =>
    simp only [List.cons_append, List.map_cons, distinct_cons] at hd
    rcases List.mem_cons.mp hq with h | h
    · subst h
      intro e
      apply hd.1
      rw [e]
      exact List.mem_map.mpr ⟨kv, List.mem_append_right _ (List.mem_cons_self ..), rfl⟩
    · exact ih hd.2 h

/-- injectivity of the attribute-name mapping on a list of JSON names -/
def InjOn (cx : PCtx) (names : List String) : Prop :=
  ∀ a ∈ names, ∀ b ∈ names, attrName cx.ci cx.reserved a = attrName cx.ci cx.reserved b → a = b

theorem buildProps_map (cx : PCtx) (req : List String) (ps : List (String × Elem))
    (hd : distinct (ps.map (·.1)) = true) (hinj : InjOn cx (ps.map (·.1))) :
    buildProps cx req ps = ps.map fun kv => (mkKey cx req kv.1, kv.2) := by
  unfold buildProps
  suffices h : ∀ (acc : List (String × Elem)) (rest : List (String × Elem)),
      distinct ((acc ++ rest).map (·.1)) = true → InjOn cx ((acc ++ rest).map (·.1)) →
      rest.foldl (fun d (kv : String × Elem) =>
        propsInsert d { name := attrName cx.ci cx.reserved kv.1, required := req.contains kv.1,
                        source := some kv.1 } kv.2) (acc.map fun kv => (mkKey cx req kv.1, kv.2)) =
      (acc ++ rest).map fun kv => (mkKey cx req kv.1, kv.2) by
    simpa using h [] ps (by simpa using hd) (by simpa using hinj)
  intro acc rest
  induction rest generalizing acc with
  | nil => intro _ _; simp
  | cons kv rest ih =>
    intro hdist hin
    simp only [List.foldl_cons]
    have hfresh : ∀ p ∈ acc.map (fun kv => (mkKey cx req kv.1, kv.2)),
        p.1.name ≠ attrName cx.ci cx.reserved kv.1 := by
      intro p hp
      obtain ⟨q, hq, rfl⟩ := List.mem_map.mp hp
      simp only [mkKey]
      intro heq
      have hqm : q.1 ∈ (acc ++ kv :: rest).map (·.1) :=
        List.mem_map.mpr ⟨q, List.mem_append_left _ hq, rfl⟩
      have hkm : kv.1 ∈ (acc ++ kv :: rest).map (·.1) :=
        List.mem_map.mpr ⟨kv, List.mem_append_right _ (List.mem_cons_self ..), rfl⟩
      have e := hin _ hqm _ hkm heq
      exact distinct_append_ne acc rest kv q hdist hq e
    rw [propsInsert_fresh _ _ _ hfresh]
    have : acc.map (fun kv => (mkKey cx req kv.1, kv.2)) ++
        [(({ name := attrName cx.ci cx.reserved kv.1, required := req.contains kv.1, source := some kv.1 } : Key), kv.2)] =
        (acc ++ [kv]).map fun kv => (mkKey cx req kv.1, kv.2) := by simp [mkKey]
    rw [this]
    have := ih (acc ++ [kv]) (by simpa using hdist) (by simpa using hin)
    simpa using this

theorem distinct_filter {l : List String} (p : String → Bool) (h : distinct l = true) :
    distinct (l.filter p) = true := by
  induction l with
  | nil => rfl
  | cons a l ih =>
    simp only [distinct_cons] at h
    by_cases hp : p a = true
    · simp only [List.filter, hp, distinct_cons]
      exact ⟨fun hm => h.1 (List.mem_filter.mp hm).1, ih h.2⟩
    · have hp' : p a = false := by simpa using hp
      simp only [List.filter, hp']; exact ih h.2

theorem foldl_synth (cx : PCtx) (base : List (Key × Elem)) (fresh : List String)
    (hbase : ∀ p ∈ base, ∀ n ∈ fresh, p.1.name ≠ attrName cx.ci cx.reserved n)
    (hd : distinct fresh = true) (hinj : InjOn cx fresh) :
    fresh.foldl (fun d key =>
      propsInsert d { name := attrName cx.ci cx.reserved key, required := true, source := some key }
        Elem.trivial) base =
      base ++ fresh.map fun n => (synthKey cx n, Elem.trivial) := by
  induction fresh generalizing base with
  | nil => simp
  | cons n rest ih =>
    simp only [List.foldl_cons, List.map_cons]
    rw [propsInsert_fresh _ _ _ (fun p hp => hbase p hp n (List.mem_cons_self ..))]
    simp only [distinct_cons] at hd
    rw [ih]
    · simp [synthKey]
    · intro p hp m hm
      rcases List.mem_append.mp hp with hp | hp
      · exact hbase p hp m (List.mem_cons_of_mem _ hm)
      · simp only [List.mem_singleton] at hp
        subst hp
        simp only
        intro e
        have := hinj n (List.mem_cons_self ..) m (List.mem_cons_of_mem _ hm) e
        subst this
        exact hd.1 hm
    · exact hd.2
    · intro a ha b hb; exact hinj a (List.mem_cons_of_mem _ ha) b (List.mem_cons_of_mem _ hb)

/-- the names `_parse_object` adds synthetic properties for -/
def synthNames (req : List String) (ps : List (String × Elem)) : List String :=
  req.filter fun n => !(ps.map (·.1)).contains n

theorem withSynthetic_eq (cx : PCtx) (req : List String) (ps : List (String × Elem))
    (hdr : distinct req = true) (hinj : InjOn cx (ps.map (·.1) ++ req)) :
    withSynthetic cx req (ps.map fun kv => (mkKey cx req kv.1, kv.2)) =
      (ps.map fun kv => (mkKey cx req kv.1, kv.2)) ++
        (synthNames req ps).map fun n => (synthKey cx n, Elem.trivial) := by
  unfold withSynthetic
  have hfilter : (req.filter fun key =>
        !((ps.map fun kv => (mkKey cx req kv.1, kv.2)).any fun p => p.1.name == attrName cx.ci cx.reserved key)) =
      synthNames req ps := by
    unfold synthNames
    apply List.filter_congr
    intro key hkey
    congr 1
    rw [List.any_map]
    apply Bool.eq_iff_iff.mpr
    simp only [List.any_eq_true, Function.comp_apply, mkKey, beq_iff_eq, List.contains_eq_mem,
      List.mem_map, decide_eq_true_eq]
    constructor
    · rintro ⟨kv, hkv, he⟩
      have := hinj kv.1 (List.mem_append_left _ (List.mem_map.mpr ⟨kv, hkv, rfl⟩)) key
        (List.mem_append_right _ hkey) he
      exact ⟨kv, hkv, this⟩
    · rintro ⟨kv, hkv, rfl⟩
      exact ⟨kv, hkv, rfl⟩
  simp only [hfilter]
  apply foldl_synth
  · intro p hp n hn
    obtain ⟨kv, hkv, rfl⟩ := List.mem_map.mp hp
    simp only [mkKey]
    intro e
    have hnr : n ∈ req := (List.mem_filter.mp hn).1
    have hnp : n ∉ ps.map (·.1) := by
      have := (List.mem_filter.mp hn).2
      simpa using this
    have := hinj kv.1 (List.mem_append_left _ (List.mem_map.mpr ⟨kv, hkv, rfl⟩)) n
      (List.mem_append_right _ hnr) e
    exact hnp (this ▸ List.mem_map.mpr ⟨kv, hkv, rfl⟩)
  · exact distinct_filter _ hdr
  · intro a ha b hb
    exact hinj a (List.mem_append_right _ (List.mem_filter.mp ha).1) b
      (List.mem_append_right _ (List.mem_filter.mp hb).1)

end Statham
