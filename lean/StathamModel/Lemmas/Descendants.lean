/-
  `descendants` is transitive, and facts about `sortDedupe`.
-/
import StathamModel.Py.Module
namespace Statham

mutual
theorem desc_trans : ∀ (z : Elem) (y : Elem), y ∈ descendants z → ∀ x ∈ descendants y, x ∈ descendants z
  | .mk c kw items addI cont props pats addP pn deps els, y, hy, x, hx => by
    rw [descendants] at hy ⊢
    simp only [List.mem_append] at hy ⊢
    rcases hy with ((((((((hy | hy) | hy) | hy) | hy) | hy) | hy) | hy) | hy)
    · exact Or.inl (Or.inl (Or.inl (Or.inl (Or.inl (Or.inl (Or.inl (Or.inl (descL_trans items y hy x hx))))))))
    · exact Or.inl (Or.inl (Or.inl (Or.inl (Or.inl (Or.inl (Or.inl (Or.inr (descO_trans addI y hy x hx))))))))
    · exact Or.inl (Or.inl (Or.inl (Or.inl (Or.inl (Or.inl (Or.inr (descO_trans cont y hy x hx)))))))
    · exact Or.inl (Or.inl (Or.inl (Or.inl (Or.inl (Or.inr (descK_trans props y hy x hx))))))
    · exact Or.inl (Or.inl (Or.inl (Or.inl (Or.inr (descO_trans addP y hy x hx)))))
    · exact Or.inl (Or.inl (Or.inl (Or.inr (descK_trans pats y hy x hx))))
    · exact Or.inl (Or.inl (Or.inr (descO_trans pn y hy x hx)))
    · exact Or.inl (Or.inr (descD_trans deps y hy x hx))
    · exact Or.inr (descL_trans els y hy x hx)
theorem descO_trans : ∀ (o : Option Elem) (y : Elem), y ∈ descO o → ∀ x ∈ descendants y, x ∈ descO o
  | none, y, hy, _, _ => by simp [descO] at hy
  | some e, y, hy, x, hx => by
    rw [descO] at hy ⊢
    rcases List.mem_cons.mp hy with rfl | hy
    · exact List.mem_cons_of_mem _ hx
    · exact List.mem_cons_of_mem _ (desc_trans e y hy x hx)
theorem descL_trans : ∀ (l : List Elem) (y : Elem), y ∈ descL l → ∀ x ∈ descendants y, x ∈ descL l
  | [], y, hy, _, _ => by simp [descL] at hy
  | e :: es, y, hy, x, hx => by
    rw [descL] at hy ⊢
    rcases List.mem_append.mp hy with hy | hy
    · refine List.mem_append_left _ ?_
      rcases List.mem_cons.mp hy with rfl | hy
      · exact List.mem_cons_of_mem _ hx
      · exact List.mem_cons_of_mem _ (desc_trans e y hy x hx)
    · exact List.mem_append_right _ (descL_trans es y hy x hx)
theorem descK_trans : ∀ (l : List (Key × Elem)) (y : Elem), y ∈ descK l → ∀ x ∈ descendants y, x ∈ descK l
  | [], y, hy, _, _ => by simp [descK] at hy
  | (k, e) :: r, y, hy, x, hx => by
    rw [descK] at hy ⊢
    rcases List.mem_append.mp hy with hy | hy
    · refine List.mem_append_left _ ?_
      rcases List.mem_cons.mp hy with rfl | hy
      · exact List.mem_cons_of_mem _ hx
      · exact List.mem_cons_of_mem _ (desc_trans e y hy x hx)
    · exact List.mem_append_right _ (descK_trans r y hy x hx)
theorem descD_trans : ∀ (l : List (Key × Elem)) (y : Elem), y ∈ descD l → ∀ x ∈ descendants y, x ∈ descD l
  | [], y, hy, _, _ => by simp [descD] at hy
  | (k, e) :: r, y, hy, x, hx => by
    rw [descD] at hy ⊢
    rcases List.mem_append.mp hy with hy | hy
    · refine List.mem_append_left _ ?_
      by_cases hk : k.names.isSome = true
      · simp [hk] at hy
      · simp only [hk, Bool.false_eq_true, if_false] at hy ⊢
        rcases List.mem_cons.mp hy with rfl | hy
        · exact List.mem_cons_of_mem _ hx
        · exact List.mem_cons_of_mem _ (desc_trans e y hy x hx)
    · exact List.mem_append_right _ (descD_trans r y hy x hx)
end

theorem mem_insertSorted {s x : String} {l : List String} : x ∈ insertSorted s l ↔ x = s ∨ x ∈ l := by
  induction l with
  | nil => simp [insertSorted]
  | cons a r ih =>
    rw [insertSorted]
    by_cases h1 : s < a
    · simp [h1]
    · by_cases h2 : (s == a) = true
      · have : s = a := by simpa using h2
        simp only [h1, if_false, h2, if_true, List.mem_cons]
        constructor
        · intro h; exact Or.inr h
        · rintro (h | h)
          · exact Or.inl (by rw [h, this])
          · exact h
      · simp only [h1, if_false, h2, Bool.false_eq_true, List.mem_cons, ih]
        constructor
        · rintro (h | h | h)
          · exact Or.inr (Or.inl h)
          · exact Or.inl h
          · exact Or.inr (Or.inr h)
        · rintro (h | h | h)
          · exact Or.inr (Or.inl h)
          · exact Or.inl h
          · exact Or.inr (Or.inr h)

theorem mem_sortDedupe {x : String} {l : List String} : x ∈ sortDedupe l ↔ x ∈ l := by
  unfold sortDedupe
  suffices h : ∀ (acc : List String), x ∈ l.foldl (fun acc s => insertSorted s acc) acc ↔ x ∈ l ∨ x ∈ acc by
    simpa using h []
  induction l with
  | nil => intro acc; simp
  | cons a r ih =>
    intro acc
    simp only [List.foldl_cons, ih, mem_insertSorted, List.mem_cons]
    constructor
    · rintro (h | h | h)
      · exact Or.inl (Or.inr h)
      · exact Or.inl (Or.inl h)
      · exact Or.inr h
    · rintro ((h | h) | h)
      · exact Or.inr (Or.inl h)
      · exact Or.inl h
      · exact Or.inr (Or.inr h)

end Statham
