/-
  A module generated from well-formed trees can be executed statement by statement: every class statement finds the
  classes it refers to already declared (orderer theorem + adequacy of its search), so `ChainOK` holds for what
  `emitModule` produces (lemmas for `Props/C02`).
-/
import StathamModel.Lemmas.EvalClass
import StathamModel.Lemmas.TreeGraph
import StathamModel.Props.C11
namespace Statham.PyEval
open Statham

def stOf : Elem → St
  | .mk _ kw items addI cont props pats addP pn deps els => ⟨kw, items, addI, cont, props, pats, addP, pn, deps, els⟩

/-- what the namespace and the node conditions must provide for one element -/
def NodeFine (env : String → Option Elem) (d : Elem) : Prop :=
  (isObjectClass d.cls = true → objName d.cls ≠ "NotPassed" ∧ env (objName d.cls) = some d) ∧
  (isObjectClass d.cls = false → NodeOK d.cls (stOf d))

mutual
theorem wf_of_fine (env : String → Option Elem) : ∀ (t : Elem), NodeFine env t → (∀ d ∈ descendants t, NodeFine env d) → WF env t
  | .mk c kw items addI cont props pats addP pn deps els, ht, hd => by
    rw [descendants] at hd
    rw [WF]
    refine ⟨?_, ?_, ?_, ?_, ?_, ?_, ?_, ?_, ?_, ?_, ?_⟩
    · intro n hn
      subst hn
      exact ht.1 rfl
    · intro hn
      refine ht.2 ?_
      cases c <;> first | rfl | exact absurd rfl (hn _)
    · exact wfl_of_fine env items fun d h => hd d (by simp [List.mem_append, h])
    · exact wfo_of_fine env addI fun d h => hd d (by simp [List.mem_append, h])
    · exact wfo_of_fine env cont fun d h => hd d (by simp [List.mem_append, h])
    · exact wfk_of_fine env props fun d h => hd d (by simp [List.mem_append, h])
    · exact wfk_of_fine env pats fun d h => hd d (by simp [List.mem_append, h])
    · exact wfo_of_fine env addP fun d h => hd d (by simp [List.mem_append, h])
    · exact wfo_of_fine env pn fun d h => hd d (by simp [List.mem_append, h])
    · exact wfd_of_fine env deps fun d h => hd d (by simp [List.mem_append, h])
    · exact wfl_of_fine env els fun d h => hd d (by simp [List.mem_append, h])
theorem wfo_of_fine (env : String → Option Elem) : ∀ (o : Option Elem), (∀ d ∈ descO o, NodeFine env d) → WFO env o
  | none, _ => by rw [WFO]; trivial
  | some e, h => by
    rw [WFO]
    rw [descO] at h
    exact wf_of_fine env e (h e (List.mem_cons_self ..)) fun d hd => h d (List.mem_cons_of_mem _ hd)
theorem wfl_of_fine (env : String → Option Elem) : ∀ (l : List Elem), (∀ d ∈ descL l, NodeFine env d) → WFL env l
  | [], _ => by rw [WFL]; trivial
  | e :: r, h => by
    rw [WFL]
    rw [descL] at h
    exact ⟨wf_of_fine env e (h e (by simp)) fun d hd => h d (by simp [hd]),
           wfl_of_fine env r fun d hd => h d (by simp [hd])⟩
theorem wfk_of_fine (env : String → Option Elem) : ∀ (l : List (Key × Elem)), (∀ d ∈ descK l, NodeFine env d) → WFK env l
  | [], _ => by rw [WFK]; trivial
  | (k, e) :: r, h => by
    rw [WFK]
    rw [descK] at h
    exact ⟨wf_of_fine env e (h e (by simp)) fun d hd => h d (by simp [hd]),
           wfk_of_fine env r fun d hd => h d (by simp [hd])⟩
theorem wfd_of_fine (env : String → Option Elem) : ∀ (l : List (Key × Elem)), (∀ d ∈ descD l, NodeFine env d) → WFD env l
  | [], _ => by rw [WFD]; trivial
  | (k, e) :: r, h => by
    rw [WFD]
    rw [descD] at h
    refine ⟨?_, wfd_of_fine env r fun d hd => h d (by simp [hd])⟩
    by_cases hk : k.names.isSome = true
    · exact Or.inl hk
    · refine Or.inr (wf_of_fine env e (h e ?_) fun d hd => h d ?_)
      · simp [hk]
      · simp [hk, hd]
end

/-- the trees a module is generated from: one class per name, classes in the form their statement determines, every other
    element in the form its constructor leaves it in -/
structure ModuleOK (els : List Elem) : Prop where
  unique : ∀ a ∈ objectClasses els, ∀ b ∈ objectClasses els, objName a.cls = objName b.cls → a = b
  names : ∀ c ∈ objectClasses els, objName c.cls ≠ "NotPassed"
  classes : ∀ c ∈ objectClasses els, ClassOK (stOf c)
  nodes : ∀ d ∈ els ++ (els.map descendants).flatten, isObjectClass d.cls = false → NodeOK d.cls (stOf d)

def lookupClass (els : List Elem) (n : String) : Option Elem := (objectClasses els).find? fun c => objName c.cls == n

theorem lookupClass_spec {els : List Elem} {n : String} {c : Elem} (h : lookupClass els n = some c) :
    c ∈ objectClasses els ∧ objName c.cls = n := by
  unfold lookupClass at h
  exact ⟨List.mem_of_find?_eq_some h, by simpa using List.find?_some h⟩

theorem lookupClass_of_mem {els : List Elem} (ok : ModuleOK els) {c : Elem} (hc : c ∈ objectClasses els) :
    lookupClass els (objName c.cls) = some c := by
  unfold lookupClass
  cases hf : (objectClasses els).find? fun x => objName x.cls == objName c.cls with
  | none =>
    have := List.find?_eq_none.mp hf c hc
    simp at this
  | some x =>
    have hx := List.mem_of_find?_eq_some hf
    have hn : objName x.cls = objName c.cls := by simpa using List.find?_some hf
    rw [ok.unique x hx c hc hn]

/-- one class statement of the module is executable once the namespace holds every class declared before it -/
theorem declOK_of_module (els : List Elem) (ok : ModuleOK els) (order pre suf : List String) (n : String)
    (ho : ordererTree els = .ok order) (hsplit : order = pre ++ n :: suf) (c : Elem) (hc : lookupClass els n = some c)
    (env : String → Option Elem)
    (henv : ∀ d ∈ objectClasses els, objName d.cls ∈ pre → env (objName d.cls) = some d) :
    DeclOK env c := by
  obtain ⟨hmem, hname⟩ := lookupClass_spec hc
  have hpool : c ∈ els ++ (els.map descendants).flatten := (List.mem_filter.mp hmem).1
  have hobj : isObjectClass c.cls = true := (List.mem_filter.mp hmem).2
  have hi : order[pre.length]? = some n := by rw [hsplit]; simp
  have htake : order.take pre.length = pre := by rw [hsplit]; simp
  have hfine : ∀ d ∈ descendants c, NodeFine env d := by
    intro d hd
    refine ⟨fun hdo => ?_, fun hdn => ok.nodes d (mem_pool_of_desc els c d hpool hd) hdn⟩
    have hdm : d ∈ objectClasses els := objectClasses_desc els c d hmem hd hdo
    have hearlier := C11.C11_declared_after_dependencies els order ho pre.length n hi c hc d hd hdo
    rw [htake] at hearlier
    exact ⟨ok.names d hdm, henv d hdm hearlier⟩
  have hcls := ok.classes c hmem
  cases c with
  | mk cl kw items addI cont props pats addP pn deps els' =>
    rw [descendants] at hfine
    rw [DeclOK]
    refine ⟨?_, hcls, ?_, ?_, ?_, ?_, ?_, ?_, ?_, ?_, ?_⟩
    · cases cl <;> simp [isObjectClass, Elem.cls] at hobj
      exact ⟨_, rfl⟩
    · exact wfl_of_fine env items fun d h => hfine d (by simp [List.mem_append, h])
    · exact wfo_of_fine env addI fun d h => hfine d (by simp [List.mem_append, h])
    · exact wfo_of_fine env cont fun d h => hfine d (by simp [List.mem_append, h])
    · exact wfk_of_fine env props fun d h => hfine d (by simp [List.mem_append, h])
    · exact wfk_of_fine env pats fun d h => hfine d (by simp [List.mem_append, h])
    · exact wfo_of_fine env addP fun d h => hfine d (by simp [List.mem_append, h])
    · exact wfo_of_fine env pn fun d h => hfine d (by simp [List.mem_append, h])
    · exact wfd_of_fine env deps fun d h => hfine d (by simp [List.mem_append, h])
    · exact wfl_of_fine env els' fun d h => hfine d (by simp [List.mem_append, h])

theorem lookupClass_some_of_order (els : List Elem) (order : List String) (ho : ordererTree els = .ok order) (i : Nat) (n : String)
    (hi : order[i]? = some n) : ∃ c, lookupClass els n = some c := by
  have hmem : n ∈ (treeGraph els).order := ((C11.C11_order_sound (treeGraph els) order ho).2 i n hi).1
  simp only [treeGraph] at hmem
  obtain ⟨c, hc, hn⟩ := List.mem_map.mp hmem
  unfold lookupClass
  cases hf : (objectClasses els).find? fun x => objName x.cls == n with
  | some x => exact ⟨x, rfl⟩
  | none =>
    have := List.find?_eq_none.mp hf c hc
    simp [hn] at this

/-- every statement of the module, top to bottom, is executable in the namespace the earlier ones leave behind -/
theorem chainOK_of_module (els : List Elem) (ok : ModuleOK els) (order : List String) (ho : ordererTree els = .ok order) :
    ∀ (suf pre : List String) (env : String → Option Elem), order = pre ++ suf →
      (∀ d ∈ objectClasses els, objName d.cls ∈ pre → env (objName d.cls) = some d) →
      ChainOK env (suf.filterMap (lookupClass els))
  | [], _, _, _, _ => by simp [ChainOK]
  | n :: r, pre, env, hsplit, henv => by
    have hi : order[pre.length]? = some n := by rw [hsplit]; simp
    obtain ⟨c, hc⟩ := lookupClass_some_of_order els order ho pre.length n hi
    obtain ⟨hmem, hname⟩ := lookupClass_spec hc
    rw [List.filterMap_cons, hc]
    rw [ChainOK]
    refine ⟨declOK_of_module els ok order pre r n ho hsplit c hc env henv, ?_⟩
    refine chainOK_of_module els ok order ho r (pre ++ [n]) _ (by rw [hsplit]; simp) ?_
    intro d hd hdn
    by_cases hq : objName d.cls = objName c.cls
    · have : d = c := ok.unique d hd c hmem hq
      simp [hq, this]
    · rcases List.mem_append.mp hdn with hp | hp
      · simp only [hq, if_false]
        exact henv d hd hp
      · rw [List.mem_singleton] at hp
        exact absurd (hp.trans hname.symm) hq

end Statham.PyEval
