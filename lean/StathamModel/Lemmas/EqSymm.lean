/-
  `Element.__eq__` is symmetric on well-formed trees.
-/
import StathamModel.Lemmas.EqRefl
namespace Statham

theorem Num.eqv_symm (a b : Num) : Num.eqv a b = Num.eqv b a := by
  unfold Num.eqv
  by_cases h : a.numer * (b.denom : Int) = b.numer * (a.denom : Int)
  · rw [beq_iff_eq.mpr h, beq_iff_eq.mpr h.symm]
  · have h' : ¬ b.numer * (a.denom : Int) = a.numer * (b.denom : Int) := fun e => h e.symm
    rw [beq_eq_false_iff_ne.mpr h, beq_eq_false_iff_ne.mpr h']

/-! ### association lists as dictionaries -/

theorem distinct_nodup {l : List String} (h : distinct l = true) : l.Nodup := by
  induction l with
  | nil => exact List.nodup_nil
  | cons a r ih =>
    rw [distinct_cons] at h
    exact List.nodup_cons.mpr ⟨h.1, ih h.2⟩

/-- two duplicate-free lists of the same length, one inside the other, have the same members -/
theorem subset_of_nodup_length' {xs ys : List String} (hn : xs.Nodup) (hsub : xs ⊆ ys) (hlen : xs.length = ys.length) :
    ys ⊆ xs := by
  intro k hk
  refine Classical.byContradiction fun hno => ?_
  have hsub' : xs ⊆ ys.erase k := by
    intro x hx
    have hxk : x ≠ k := fun e => hno (e ▸ hx)
    exact (List.mem_erase_of_ne hxk).mpr (hsub hx)
  have := List.Nodup.length_le_of_subset hn hsub'
  rw [List.length_erase] at this
  simp only [hk, if_true] at this
  have : 0 < ys.length := List.length_pos_of_mem hk
  omega

theorem dkKV_mem {kvs : List (String × JVal)} (h : distinctKeys.dkKV kvs = true) {k : String} {v : JVal}
    (hm : (k, v) ∈ kvs) : distinctKeys v = true := by
  induction kvs with
  | nil => cases hm
  | cons a r ih =>
    obtain ⟨k', v'⟩ := a
    simp only [distinctKeys.dkKV, Bool.and_eq_true] at h
    rcases List.mem_cons.mp hm with he | hm
    · simp only [Prod.mk.injEq] at he; rw [he.2]; exact h.1
    · exact ih h.2 hm

/-- `pyEqObj ys xs` from its member-wise description -/
theorem pyEqObj_of {ys xs : List (String × JVal)}
    (h : ∀ p ∈ ys, ∃ v, JVal.lookup p.1 xs = some v ∧ JVal.pyEq p.2 v = true) : JVal.pyEqObj ys xs = true := by
  induction ys with
  | nil => rw [JVal.pyEqObj]
  | cons a r ih =>
    obtain ⟨k, w⟩ := a
    rw [JVal.pyEqObj]
    obtain ⟨v, hl, he⟩ := h (k, w) (List.mem_cons_self ..)
    simp only [hl, he, Bool.true_and]
    exact ih fun p hp => h p (List.mem_cons_of_mem _ hp)

/-- the dictionary step of symmetry: member-wise flipped equalities + equal sizes + distinct keys -/
theorem pyEqObj_symm_of_flip {xs ys : List (String × JVal)} (hdx : distinct (xs.map (·.1)) = true)
    (hdy : distinct (ys.map (·.1)) = true) (hlen : xs.length = ys.length)
    (hflip : ∀ p ∈ xs, ∃ w, JVal.lookup p.1 ys = some w ∧ JVal.pyEq w p.2 = true) : JVal.pyEqObj ys xs = true := by
  apply pyEqObj_of
  intro p hp
  obtain ⟨k', w⟩ := p
  have hsub : xs.map (·.1) ⊆ ys.map (·.1) := by
    intro k hk
    obtain ⟨q, hq, rfl⟩ := List.mem_map.mp hk
    obtain ⟨w', hl, _⟩ := hflip q hq
    exact List.mem_map.mpr ⟨(q.1, w'), lookup_some_mem hl, rfl⟩
  have hback := subset_of_nodup_length' (distinct_nodup hdx) hsub (by simp [hlen])
  have hk' : k' ∈ xs.map (·.1) := hback (List.mem_map.mpr ⟨(k', w), hp, rfl⟩)
  obtain ⟨q, hq, hqk⟩ := List.mem_map.mp hk'
  obtain ⟨w', hl, he⟩ := hflip q hq
  have hw : JVal.lookup k' ys = some w := lookup_of_mem hdy hp
  rw [hqk, hw] at hl
  have : w = w' := Option.some.inj hl
  subst this
  refine ⟨q.2, ?_, he⟩
  have : (k', q.2) ∈ xs := by rw [← hqk]; exact hq
  exact lookup_of_mem hdx this

mutual
theorem pyEq_imp : ∀ (v w : JVal), distinctKeys v = true → distinctKeys w = true → JVal.pyEq v w = true → JVal.pyEq w v = true
  | .null, w, _, _, h => by cases w <;> simp [JVal.pyEq] at h ⊢
  | .bool a, w, _, _, h => by
    cases w with
    | bool b => simp only [JVal.pyEq, beq_iff_eq] at h ⊢; exact h.symm
    | num n => simp only [JVal.pyEq] at h ⊢; rw [Num.eqv_symm]; exact h
    | _ => simp [JVal.pyEq] at h
  | .num a, w, _, _, h => by
    cases w with
    | num b => simp only [JVal.pyEq] at h ⊢; rw [Num.eqv_symm]; exact h
    | bool b => simp only [JVal.pyEq] at h ⊢; rw [Num.eqv_symm]; exact h
    | _ => simp [JVal.pyEq] at h
  | .str a, w, _, _, h => by
    cases w with
    | str b => simp only [JVal.pyEq, beq_iff_eq] at h ⊢; exact h.symm
    | _ => simp [JVal.pyEq] at h
  | .arr xs, w, hv, hw, h => by
    cases w with
    | arr ys =>
      simp only [JVal.pyEq] at h ⊢
      exact pyEqList_imp xs ys (by simpa [distinctKeys] using hv) (by simpa [distinctKeys] using hw) h
    | _ => simp [JVal.pyEq] at h
  | .obj xs, w, hv, hw, h => by
    cases w with
    | obj ys =>
      simp only [JVal.pyEq, Bool.and_eq_true, beq_iff_eq] at h ⊢
      simp only [distinctKeys, Bool.and_eq_true] at hv hw
      refine ⟨h.1.symm, ?_⟩
      exact pyEqObj_symm_of_flip hv.1 hw.1 h.1 (pyEqObj_flip xs ys hv.2 hw.2 h.2)
    | _ => simp [JVal.pyEq] at h
theorem pyEqList_imp : ∀ (xs ys : List JVal), distinctKeys.dkL xs = true → distinctKeys.dkL ys = true →
    JVal.pyEqList xs ys = true → JVal.pyEqList ys xs = true
  | [], ys, _, _, h => by
    cases ys with
    | nil => rfl
    | cons y r => simp [JVal.pyEqList] at h
  | x :: xs, ys, hx, hy, h => by
    cases ys with
    | nil => simp [JVal.pyEqList] at h
    | cons y r =>
      simp only [JVal.pyEqList, Bool.and_eq_true] at h ⊢
      simp only [distinctKeys.dkL, Bool.and_eq_true] at hx hy
      exact ⟨pyEq_imp x y hx.1 hy.1 h.1, pyEqList_imp xs r hx.2 hy.2 h.2⟩
theorem pyEqObj_flip : ∀ (xs ys : List (String × JVal)), distinctKeys.dkKV xs = true → distinctKeys.dkKV ys = true →
    JVal.pyEqObj xs ys = true → ∀ p ∈ xs, ∃ w, JVal.lookup p.1 ys = some w ∧ JVal.pyEq w p.2 = true
  | [], _, _, _, _ => by intro p hp; cases hp
  | (k, v) :: r, ys, hx, hy, h => by
    simp only [distinctKeys.dkKV, Bool.and_eq_true] at hx
    rw [JVal.pyEqObj, Bool.and_eq_true] at h
    intro p hp
    rcases List.mem_cons.mp hp with rfl | hp
    · show ∃ w, JVal.lookup k ys = some w ∧ JVal.pyEq w v = true
      have h1 := h.1
      generalize hl : JVal.lookup k ys = o at h1
      cases o with
      | none => simp at h1
      | some w => exact ⟨w, rfl, pyEq_imp v w hx.1 (dkKV_mem hy (lookup_some_mem hl)) h1⟩
    · exact pyEqObj_flip r ys hx.2 hy h.2 p hp
end

theorem pyEq_symm (v w : JVal) (hv : distinctKeys v = true) (hw : distinctKeys w = true) : JVal.pyEq v w = JVal.pyEq w v := by
  cases h1 : JVal.pyEq v w with
  | true => exact (pyEq_imp v w hv hw h1).symm
  | false =>
    cases h2 : JVal.pyEq w v with
    | false => rfl
    | true => rw [pyEq_imp w v hw hv h2] at h1; cases h1

/-! ### keyword records -/

theorem beq_symm {α} [BEq α] [LawfulBEq α] (a b : α) : (a == b) = (b == a) := by
  by_cases h : a = b
  · subst h; rfl
  · have h' : ¬ b = a := fun e => h e.symm
    rw [beq_eq_false_iff_ne.mpr h, beq_eq_false_iff_ne.mpr h']

theorem optEq_symm {α} (f : α → α → Bool) (x y : Option α)
    (h : ∀ a b, x = some a → y = some b → f a b = f b a) : optEq f x y = optEq f y x := by
  cases x <;> cases y <;> simp only [optEq]
  exact h _ _ rfl rfl

theorem listEq_symm {α} (f : α → α → Bool) : ∀ (x y : List α), (∀ a ∈ x, ∀ b ∈ y, f a b = f b a) →
    listEq f x y = listEq f y x
  | [], [], _ => rfl
  | [], _ :: _, _ => rfl
  | _ :: _, [], _ => rfl
  | a :: as, b :: bs, h => by
    simp only [listEq]
    rw [h a (List.mem_cons_self ..) b (List.mem_cons_self ..),
      listEq_symm f as bs fun x hx y hy => h x (List.mem_cons_of_mem _ hx) y (List.mem_cons_of_mem _ hy)]

theorem optNum_symm (x y : Option Num) : optEq Num.eqv x y = optEq Num.eqv y x :=
  optEq_symm _ _ _ fun a b _ _ => Num.eqv_symm a b

theorem Kw.eq_symm (a b : Kw) (ha : a.litsOk = true) (hb : b.litsOk = true) : Kw.eq a b = Kw.eq b a := by
  unfold Kw.litsOk at ha hb
  simp only [Bool.and_eq_true] at ha hb
  obtain ⟨⟨a1, a2⟩, a3⟩ := ha
  obtain ⟨⟨b1, b2⟩, b3⟩ := hb
  have e1 : optEq JVal.pyEq a.default b.default = optEq JVal.pyEq b.default a.default :=
    optEq_symm _ _ _ fun x y hx hy => pyEq_symm x y (by rw [hx] at a1; exact a1) (by rw [hy] at b1; exact b1)
  have e2 : optEq JVal.pyEq a.const b.const = optEq JVal.pyEq b.const a.const :=
    optEq_symm _ _ _ fun x y hx hy => pyEq_symm x y (by rw [hx] at a2; exact a2) (by rw [hy] at b2; exact b2)
  have e3 : optEq (listEq JVal.pyEq) a.enum b.enum = optEq (listEq JVal.pyEq) b.enum a.enum :=
    optEq_symm _ _ _ fun x y hx hy => listEq_symm _ x y fun u hu w hw => pyEq_symm u w
      (by rw [hx] at a3; simp only [optAll, List.all_eq_true] at a3; exact a3 u hu)
      (by rw [hy] at b3; simp only [optAll, List.all_eq_true] at b3; exact b3 w hw)
  unfold Kw.eq
  rw [e1, e2, e3, beq_symm a.itemsKind, beq_symm a.addItemsB, optNum_symm a.minItems, optNum_symm a.maxItems,
    beq_symm a.uniqueItems, optNum_symm a.minimum, optNum_symm a.maximum, optNum_symm a.exclusiveMinimum,
    optNum_symm a.exclusiveMaximum, optNum_symm a.multipleOf, beq_symm a.format, beq_symm a.pattern,
    optNum_symm a.minLength, optNum_symm a.maxLength, beq_symm a.required, beq_symm a.hasProps, beq_symm a.hasPatProps,
    beq_symm a.addPropsB, optNum_symm a.minProperties, optNum_symm a.maxProperties, beq_symm a.hasDeps,
    beq_symm a.description]

theorem Cls.sameClass_symm (a b : Cls) : Cls.sameClass a b = Cls.sameClass b a := by
  cases a <;> cases b <;> simp [Cls.sameClass] <;> first | rfl | (exact beq_symm _ _)

/-! ### keyed containers as dictionaries -/

theorem keyedFind_some {α} {n : String} {l : List (Key × α)} {q : Key × α} (h : keyedFind n l = some q) :
    q ∈ l ∧ q.1.name = n := by
  induction l with
  | nil => simp [keyedFind] at h
  | cons a r ih =>
    obtain ⟨k, x⟩ := a
    unfold keyedFind at h
    by_cases e : k.name = n
    · simp only [e, if_true, Option.some.injEq] at h
      subst h
      exact ⟨List.mem_cons_self .., e⟩
    · simp only [e, if_false] at h
      exact ⟨List.mem_cons_of_mem _ (ih h).1, (ih h).2⟩

/-- the pigeonhole step for keyed containers -/
theorem keyed_flip_all {α} (R : Key × α → Key × α → Prop) {xs ys : List (Key × α)}
    (hdx : distinct (xs.map (·.1.name)) = true) (hdy : distinct (ys.map (·.1.name)) = true) (hlen : xs.length = ys.length)
    (hflip : ∀ p ∈ xs, ∃ q, keyedFind p.1.name ys = some q ∧ R q p) :
    ∀ q ∈ ys, ∃ p, keyedFind q.1.name xs = some p ∧ R q p := by
  intro q hq
  have hsub : xs.map (·.1.name) ⊆ ys.map (·.1.name) := by
    intro k hk
    obtain ⟨p, hp, rfl⟩ := List.mem_map.mp hk
    obtain ⟨q', hf, _⟩ := hflip p hp
    have := keyedFind_some hf
    exact List.mem_map.mpr ⟨q', this.1, this.2⟩
  have hback := subset_of_nodup_length' (distinct_nodup hdx) hsub (by simp [hlen])
  have hk' : q.1.name ∈ xs.map (·.1.name) := hback (List.mem_map.mpr ⟨q, hq, rfl⟩)
  obtain ⟨p, hp, hpn⟩ := List.mem_map.mp hk'
  obtain ⟨q', hf, hR⟩ := hflip p hp
  have hq' : keyedFind q.1.name ys = some q := by
    obtain ⟨k, x⟩ := q
    exact keyedFind_mem hdy hq
  rw [hpn, hq'] at hf
  have : q = q' := Option.some.inj hf
  subst this
  refine ⟨p, ?_, hR⟩
  obtain ⟨k, x⟩ := p
  rw [← hpn]
  exact keyedFind_mem hdx hp

theorem wfK_mem {l : List (Key × Elem)} (h : wfK l = true) {p : Key × Elem} (hp : p ∈ l) : wfElem p.2 = true := by
  induction l with
  | nil => cases hp
  | cons a r ih =>
    obtain ⟨k, e⟩ := a
    rw [wfK, Bool.and_eq_true] at h
    rcases List.mem_cons.mp hp with rfl | hp
    · exact h.1
    · exact ih h.2 hp

theorem eqProps_of {l other : List (Key × Elem)}
    (h : ∀ p ∈ l, ∃ q, keyedFind p.1.name other = some q ∧
      (elemEq p.2 q.2 = true ∧ (p.1.required == q.1.required) = true ∧ (p.1.src == q.1.src) = true)) :
    eqProps l other = true := by
  induction l with
  | nil => rw [eqProps]
  | cons a r ih =>
    obtain ⟨k, e⟩ := a
    rw [eqProps]
    obtain ⟨q, hf, h1, h2, h3⟩ := h (k, e) (List.mem_cons_self ..)
    obtain ⟨k', e'⟩ := q
    simp only [hf, h1, h2, h3, Bool.and_self, Bool.true_and]
    exact ih fun p hp => h p (List.mem_cons_of_mem _ hp)

theorem eqKeyed_of {l other : List (Key × Elem)}
    (h : ∀ p ∈ l, ∃ q, keyedFind p.1.name other = some q ∧ elemEq p.2 q.2 = true) : eqKeyed l other = true := by
  induction l with
  | nil => rw [eqKeyed]
  | cons a r ih =>
    obtain ⟨k, e⟩ := a
    rw [eqKeyed]
    obtain ⟨q, hf, h1⟩ := h (k, e) (List.mem_cons_self ..)
    obtain ⟨k', e'⟩ := q
    simp only [hf, h1, Bool.true_and]
    exact ih fun p hp => h p (List.mem_cons_of_mem _ hp)

/-- one dependency entry against another: name lists equal, or both schemas and equal -/
def depEq (p q : Key × Elem) : Bool :=
  match p.1.names, q.1.names with
  | some l, some l' => l == l'
  | none, none => elemEq p.2 q.2
  | _, _ => false

theorem eqDeps_of {l other : List (Key × Elem)}
    (h : ∀ p ∈ l, ∃ q, keyedFind p.1.name other = some q ∧ depEq p q = true) : eqDeps l other = true := by
  induction l with
  | nil => rw [eqDeps]
  | cons a r ih =>
    obtain ⟨k, e⟩ := a
    rw [eqDeps]
    obtain ⟨q, hf, h1⟩ := h (k, e) (List.mem_cons_self ..)
    obtain ⟨k', e'⟩ := q
    simp only [hf]
    rw [Bool.and_eq_true]
    exact ⟨h1, ih fun p hp => h p (List.mem_cons_of_mem _ hp)⟩

mutual
theorem elemEq_imp : ∀ (a b : Elem), wfElem a = true → wfElem b = true → elemEq a b = true → elemEq b a = true
  | .mk c kw items addI cont props pats addP pn deps els, b, ha, hb, h => by
    cases b with
    | mk c' kw' items' addI' cont' props' pats' addP' pn' deps' els' =>
      rw [wfElem] at ha hb
      simp only [Bool.and_eq_true] at ha hb
      obtain ⟨⟨⟨⟨⟨⟨⟨⟨⟨⟨⟨⟨ak, adp⟩, adq⟩, add⟩, a1⟩, a2⟩, a3⟩, a4⟩, a5⟩, a6⟩, a7⟩, a8⟩, a9⟩ := ha
      obtain ⟨⟨⟨⟨⟨⟨⟨⟨⟨⟨⟨⟨bk, bdp⟩, bdq⟩, bdd⟩, b1⟩, b2⟩, b3⟩, b4⟩, b5⟩, b6⟩, b7⟩, b8⟩, b9⟩ := hb
      rw [elemEq] at h ⊢
      simp only [Elem.cls, Elem.kw, Elem.items, Elem.addItems, Elem.contains, Elem.props, Elem.patProps,
        Elem.addProps, Elem.propNames, Elem.deps, Elem.elements, Bool.and_eq_true, beq_iff_eq] at h ⊢
      obtain ⟨⟨⟨⟨⟨⟨⟨⟨⟨⟨hc, hk⟩, hi⟩, hai⟩, hco⟩, ⟨hpl, hp⟩⟩, ⟨hql, hq⟩⟩, hap⟩, hpn⟩, ⟨hdl, hd⟩⟩, he⟩ := h
      refine ⟨⟨⟨⟨⟨⟨⟨⟨⟨⟨?_, ?_⟩, ?_⟩, ?_⟩, ?_⟩, ⟨hpl.symm, ?_⟩⟩, ⟨hql.symm, ?_⟩⟩, ?_⟩, ?_⟩, ⟨hdl.symm, ?_⟩⟩, ?_⟩
      · rw [Cls.sameClass_symm]; exact hc
      · rw [Kw.eq_symm kw' kw bk ak]; exact hk
      · exact eqList_imp items items' a1 b1 hi
      · exact eqOpt_imp addI addI' a2 b2 hai
      · exact eqOpt_imp cont cont' a3 b3 hco
      · apply eqProps_of
        have := keyed_flip_all (fun q p => elemEq q.2 p.2 = true ∧ (q.1.required == p.1.required) = true ∧ (q.1.src == p.1.src) = true)
          adp bdp hpl (eqProps_flip props props' a4 b4 hp)
        exact this
      · apply eqKeyed_of
        exact keyed_flip_all (fun q p => elemEq q.2 p.2 = true) adq bdq hql (eqKeyed_flip pats pats' a5 b5 hq)
      · exact eqOpt_imp addP addP' a6 b6 hap
      · exact eqOpt_imp pn pn' a7 b7 hpn
      · apply eqDeps_of
        exact keyed_flip_all (fun q p => depEq q p = true) add bdd hdl (eqDeps_flip deps deps' a8 b8 hd)
      · exact eqList_imp els els' a9 b9 he
theorem eqOpt_imp : ∀ (o o' : Option Elem), wfO o = true → wfO o' = true → eqOpt o o' = true → eqOpt o' o = true
  | none, o', _, _, h => by
    cases o' with
    | none => exact h
    | some e => simp [eqOpt] at h
  | some e, o', ha, hb, h => by
    cases o' with
    | none => simp [eqOpt] at h
    | some e' =>
      rw [wfO] at ha hb
      rw [eqOpt] at h ⊢
      exact elemEq_imp e e' ha hb h
theorem eqList_imp : ∀ (l l' : List Elem), wfL l = true → wfL l' = true → eqList l l' = true → eqList l' l = true
  | [], l', _, _, h => by
    cases l' with
    | nil => exact h
    | cons e r => simp [eqList] at h
  | e :: es, l', ha, hb, h => by
    cases l' with
    | nil => simp [eqList] at h
    | cons e' es' =>
      rw [wfL, Bool.and_eq_true] at ha hb
      rw [eqList, Bool.and_eq_true] at h ⊢
      exact ⟨elemEq_imp e e' ha.1 hb.1 h.1, eqList_imp es es' ha.2 hb.2 h.2⟩
theorem eqProps_flip : ∀ (l other : List (Key × Elem)), wfK l = true → wfK other = true → eqProps l other = true →
    ∀ p ∈ l, ∃ q, keyedFind p.1.name other = some q ∧
      (elemEq q.2 p.2 = true ∧ (q.1.required == p.1.required) = true ∧ (q.1.src == p.1.src) = true)
  | [], _, _, _, _ => by intro p hp; cases hp
  | (k, e) :: r, other, ha, hb, h => by
    rw [wfK, Bool.and_eq_true] at ha
    rw [eqProps, Bool.and_eq_true] at h
    intro p hp
    rcases List.mem_cons.mp hp with rfl | hp
    · have h1 := h.1
      generalize hf : keyedFind k.name other = o at h1
      cases o with
      | none => simp at h1
      | some q =>
        obtain ⟨k', e'⟩ := q
        simp only [Bool.and_eq_true] at h1
        have hwf : wfElem e' = true := wfK_mem hb (keyedFind_some hf).1
        refine ⟨(k', e'), rfl, elemEq_imp e e' ha.1 hwf h1.1.1, ?_, ?_⟩
        · rw [beq_symm]; exact h1.1.2
        · rw [beq_symm]; exact h1.2
    · exact eqProps_flip r other ha.2 hb h.2 p hp
theorem eqKeyed_flip : ∀ (l other : List (Key × Elem)), wfK l = true → wfK other = true → eqKeyed l other = true →
    ∀ p ∈ l, ∃ q, keyedFind p.1.name other = some q ∧ elemEq q.2 p.2 = true
  | [], _, _, _, _ => by intro p hp; cases hp
  | (k, e) :: r, other, ha, hb, h => by
    rw [wfK, Bool.and_eq_true] at ha
    rw [eqKeyed, Bool.and_eq_true] at h
    intro p hp
    rcases List.mem_cons.mp hp with rfl | hp
    · have h1 := h.1
      generalize hf : keyedFind k.name other = o at h1
      cases o with
      | none => simp at h1
      | some q =>
        obtain ⟨k', e'⟩ := q
        have hwf : wfElem e' = true := wfK_mem hb (keyedFind_some hf).1
        exact ⟨(k', e'), rfl, elemEq_imp e e' ha.1 hwf h1⟩
    · exact eqKeyed_flip r other ha.2 hb h.2 p hp
theorem eqDeps_flip : ∀ (l other : List (Key × Elem)), wfK l = true → wfK other = true → eqDeps l other = true →
    ∀ p ∈ l, ∃ q, keyedFind p.1.name other = some q ∧ depEq q p = true
  | [], _, _, _, _ => by intro p hp; cases hp
  | (k, e) :: r, other, ha, hb, h => by
    rw [wfK, Bool.and_eq_true] at ha
    rw [eqDeps, Bool.and_eq_true] at h
    intro p hp
    rcases List.mem_cons.mp hp with rfl | hp
    · have h1 := h.1
      generalize hf : keyedFind k.name other = o at h1
      cases o with
      | none => simp at h1
      | some q =>
        obtain ⟨k', e'⟩ := q
        have hwf : wfElem e' = true := wfK_mem hb (keyedFind_some hf).1
        refine ⟨(k', e'), rfl, ?_⟩
        unfold depEq
        simp only at h1 ⊢
        cases hn : k.names <;> cases hn' : k'.names <;> simp only [hn, hn'] at h1 ⊢
        · exact elemEq_imp e e' ha.1 hwf h1
        · cases h1
        · cases h1
        · rw [beq_symm]; exact h1
    · exact eqDeps_flip r other ha.2 hb h.2 p hp
end

/-- **`Element.__eq__` is symmetric** on well-formed trees -/
theorem elemEq_symm (a b : Elem) (ha : wfElem a = true) (hb : wfElem b = true) : elemEq a b = elemEq b a := by
  cases h1 : elemEq a b with
  | true => exact (elemEq_imp a b ha hb h1).symm
  | false =>
    cases h2 : elemEq b a with
    | false => rfl
    | true => rw [elemEq_imp b a hb ha h2] at h1; cases h1

end Statham
