/-
  Verdicts do not depend on the Python attribute names of properties: `Element.__call__` looks a member up by
  the property's JSON name (`source`), and the attribute name only labels the result.  `forget e` replaces every
  property key of the tree by its canonical form (no attribute name, explicit source); `acc_forget` says the
  verdict-only semantics cannot tell the difference.  This is what extends the C03 meaning theorem from parser
  images to trees written in the DSL with freely chosen attribute names.
-/
import StathamModel.Acc
namespace Statham

/-- a property key with the attribute name forgotten; JSON name and `required` flag are kept -/
def normKey (k : Key) : Key := { name := "", required := k.required, source := some k.src, names := k.names }

theorem normKey_src (k : Key) : (normKey k).src = k.src := by
  unfold normKey Key.src
  simp only
  split <;> simp_all

theorem normKey_required (k : Key) : (normKey k).required = k.required := rfl

theorem normKey_idem (k : Key) : normKey (normKey k) = normKey k := by
  unfold normKey
  simp only [Key.mk.injEq, true_and]
  refine ⟨?_, trivial⟩
  have := normKey_src k
  unfold normKey at this
  rw [this]

def propsErase {ρ} (l : List (Key × Option JVal × CallG ρ)) : List (Key × Option JVal × CallG ρ) :=
  l.map fun p => (normKey p.1, p.2.1, p.2.2)

theorem findDeclared_erase {ρ} (l : List (Key × Option JVal × CallG ρ)) (k : String) :
    findDeclared (propsErase l) k = (findDeclared l k).map fun p => (normKey p.1, p.2) := by
  unfold findDeclared propsErase
  suffices h : ∀ (acc : Option (Key × CallG ρ)),
      (l.map fun p => (normKey p.1, p.2.1, p.2.2)).foldl (fun acc p => if p.1.src == k then some (p.1, p.2.2) else acc)
        (acc.map fun p => (normKey p.1, p.2)) =
      (l.foldl (fun acc p => if p.1.src == k then some (p.1, p.2.2) else acc) acc).map fun p => (normKey p.1, p.2) from h none
  induction l with
  | nil => intro acc; rfl
  | cons p r ih =>
    intro acc
    simp only [List.map_cons, List.foldl_cons, normKey_src]
    by_cases hk : (p.1.src == k) = true
    · simp only [hk, if_true]
      exact ih (some (p.1, p.2.2))
    · simp only [hk, Bool.false_eq_true, if_false]
      exact ih acc

theorem srcs_erase {ρ} (l : List (Key × Option JVal × CallG ρ)) :
    (propsErase l).map (fun p => p.1.src) = l.map (fun p => p.1.src) := by
  unfold propsErase
  rw [List.map_map]
  apply List.map_congr_left
  intro p _
  exact normKey_src p.1

/-- the sub-element record with the declared properties' attribute names forgotten -/
def SubG.erase {ρ} (s : SubG ρ) : SubG ρ := { s with props := propsErase s.props }

theorem visitKeys_erase {ρ} (s : SubG ρ) (kvs : List (String × JVal)) : visitKeys s.erase kvs = visitKeys s kvs := by
  unfold visitKeys SubG.erase
  simp only [srcs_erase]

theorem resolveCall_erase {ρ} (alg : Alg ρ) (env : Env) (kw : Kw) (s : SubG ρ) (k : String) (a : Arg) :
    (resolveCall alg env kw s.erase k a).2 = (resolveCall alg env kw s k a).2 := by
  unfold resolveCall
  have hp : s.erase.patProps = s.patProps := rfl
  have hd : findDeclared s.erase.props k = (findDeclared s.props k).map fun p => (normKey p.1, p.2) := findDeclared_erase s.props k
  simp only [hp, hd]
  cases hf : findDeclared s.props k with
  | none =>
    simp only [Option.map_none]
    cases matchingPats env s.patProps k with
    | nil => rfl
    | cons f fs => cases fs <;> rfl
  | some p =>
    simp only [Option.map_some]
    cases matchingPats env s.patProps k <;> rfl

theorem propsOuts_erase {ρ} (alg : Alg ρ) (env : Env) (kw : Kw) (s : SubG ρ) (kvs : List (String × JVal)) :
    (propsOuts alg env kw s.erase kvs).map (·.2) = (propsOuts alg env kw s kvs).map (·.2) := by
  unfold propsOuts
  rw [visitKeys_erase, List.map_map, List.map_map]
  apply List.map_congr_left
  intro k _
  exact resolveCall_erase alg env kw s k (argOf kvs k)

theorem V_all_snd {α} (l : List (α × V)) : V.all (fun o => o.2) l = V.all id (l.map (·.2)) := by
  unfold V.all
  induction l with
  | nil => rfl
  | cons x xs ih => simp only [List.foldr_cons, List.map_cons, id, ih]

theorem requiredNames_erase {ρ} (kw : Kw) (l : List (Key × Option JVal × CallG ρ)) :
    requiredNames kw ((propsErase l).map fun p => (p.1, p.2.1)) = requiredNames kw (l.map fun p => (p.1, p.2.1)) := by
  unfold requiredNames propsErase
  congr 1
  induction l with
  | nil => rfl
  | cons p r ih =>
    simp only [List.map_cons, List.filter_cons, normKey_required]
    by_cases hc : (p.1.required && p.2.1.isNone) = true
    · simp only [hc, if_true, List.map_cons, normKey_src]
      exact congrArg _ ih
    · simp only [hc, Bool.false_eq_true, if_false]
      exact ih

theorem itemsCallFrom_erase {ρ} (alg : Alg ρ) (kw : Kw) (s : SubG ρ) (idx : Nat) (xs : List JVal) :
    itemsCallFrom alg kw s.erase idx xs = itemsCallFrom alg kw s idx xs := by
  induction xs generalizing idx with
  | nil => rfl
  | cons x xs ih =>
    simp only [itemsCallFrom, ih]
    rfl

theorem validators_erase (env : Env) (c : Cls) (kw : Kw) (s : VSub) (v : JVal) :
    validators id env c kw s.erase v = validators id env c kw s v := by
  unfold validators
  cases v with
  | obj kvs =>
    simp only
    have h1 : objChecks kw (s.erase.props.map fun p => (p.1, p.2.1)) (depNamesOf s.erase) kvs =
        objChecks kw (s.props.map fun p => (p.1, p.2.1)) (depNamesOf s) kvs := by
      unfold objChecks
      have hr : requiredNames kw (s.erase.props.map fun p => (p.1, p.2.1)) = requiredNames kw (s.props.map fun p => (p.1, p.2.1)) :=
        requiredNames_erase kw s.props
      rw [hr]
      rfl
    have h2 : additionalPropsCheck env c kw s.erase kvs = additionalPropsCheck env c kw s kvs := by
      unfold additionalPropsCheck
      have ha : ∀ (x : String), (s.erase.props.any fun p => p.1.src == x) = (s.props.any fun p => p.1.src == x) := by
        intro x
        show ((propsErase s.props).any fun p => p.1.src == x) = _
        unfold propsErase
        rw [List.any_map]
        congr 1
        funext p
        simp only [Function.comp_apply, normKey_src]
      cases c <;> simp only [ha] <;> rfl
    rw [h1, h2]
    rfl
  | _ => rfl

theorem constructV_erase (env : Env) (c : Cls) (kw : Kw) (s : VSub) (v : JVal) :
    constructV env c kw s.erase v = constructV env c kw s v := by
  have hp : ∀ kvs, V.all (fun o => o.2) (propsOuts vAlg env kw s.erase kvs) = V.all (fun o => o.2) (propsOuts vAlg env kw s kvs) := by
    intro kvs
    rw [V_all_snd, V_all_snd, propsOuts_erase]
  have hi : ∀ xs, V.all id (itemsCallFrom vAlg kw s.erase 0 xs) = V.all id (itemsCallFrom vAlg kw s 0 xs) := by
    intro xs
    rw [itemsCallFrom_erase]
  have he : s.erase.elements = s.elements := rfl
  unfold constructV
  cases c <;> cases v <;> simp only [he, hp, hi]

theorem accCore_erase (env : Env) (c : Cls) (kw : Kw) (s : VSub) (a : Arg) :
    accCore env c kw s.erase a = accCore env c kw s a := by
  unfold accCore createV
  cases a with
  | val v => simp only [validators_erase, constructV_erase]
  | notPassed =>
    cases kw.default with
    | none => rfl
    | some d => simp only [validators_erase, constructV_erase]

/-! ### forgetting the attribute names of a whole tree -/

mutual
def forget : Elem → Elem
  | .mk c kw items addI cont props pats addP pn deps els =>
    .mk c kw (forgetL items) (forgetO addI) (forgetO cont) (forgetP props) (forgetK pats) (forgetO addP) (forgetO pn)
      (forgetK deps) (forgetL els)
def forgetO : Option Elem → Option Elem
  | none => none
  | some e => some (forget e)
def forgetL : List Elem → List Elem
  | [] => []
  | e :: es => forget e :: forgetL es
/-- declared properties: key normalised -/
def forgetP : List (Key × Elem) → List (Key × Elem)
  | [] => []
  | (k, e) :: r => (normKey k, forget e) :: forgetP r
/-- `patternProperties` / `dependencies`: the key is the pattern / the trigger and stays -/
def forgetK : List (Key × Elem) → List (Key × Elem)
  | [] => []
  | (k, e) :: r => (k, forget e) :: forgetK r
end

theorem forget_cls (e : Elem) : (forget e).cls = e.cls := by
  cases e; rw [forget]; rfl

theorem forget_kw (e : Elem) : (forget e).kw = e.kw := by
  cases e; rw [forget]; rfl

mutual
/-- **Verdicts ignore attribute names.** -/
theorem acc_forget (env : Env) : ∀ (e : Elem), (forget e).acc env = e.acc env
  | .mk c kw items addI cont props pats addP pn deps els => by
    funext a
    rw [forget, Elem.acc, Elem.acc]
    rw [accList_forget env items, accAddl_forget env addI, accOpt_forget env cont, accProps_forget env props,
      accKeyed_forget env pats, accOpt_forget env addP, accOpt_forget env pn, accKeyed_forget env deps, accList_forget env els]
    exact accCore_erase env c kw
      { items := accList env items, addItems := accAddl env addI, contains := accOpt env cont, props := accProps env props,
        patProps := accKeyed env pats, addProps := accOpt env addP, propNames := accOpt env pn, deps := accKeyed env deps,
        elements := accList env els } a
theorem accOpt_forget (env : Env) : ∀ (o : Option Elem), accOpt env (forgetO o) = accOpt env o
  | none => by rw [forgetO]
  | some e => by rw [forgetO, accOpt, accOpt, acc_forget env e]
theorem accAddl_forget (env : Env) : ∀ (o : Option Elem), accAddl env (forgetO o) = accAddl env o
  | none => by rw [forgetO]
  | some e => by rw [forgetO, accAddl, accAddl, acc_forget env e, forget_cls]
theorem accList_forget (env : Env) : ∀ (l : List Elem), accList env (forgetL l) = accList env l
  | [] => by rw [forgetL]
  | e :: es => by rw [forgetL, accList, accList, acc_forget env e, accList_forget env es]
theorem accKeyed_forget (env : Env) : ∀ (l : List (Key × Elem)), accKeyed env (forgetK l) = accKeyed env l
  | [] => by rw [forgetK]
  | (k, e) :: r => by rw [forgetK, accKeyed, accKeyed, acc_forget env e, accKeyed_forget env r]
theorem accProps_forget (env : Env) : ∀ (l : List (Key × Elem)), accProps env (forgetP l) = propsErase (accProps env l)
  | [] => by rw [forgetP, accProps]; rfl
  | (k, e) :: r => by
    rw [forgetP, accProps, accProps, acc_forget env e, accProps_forget env r, forget_kw]
    rfl
end


/-! ### class names -/

def anonCls : Cls → Cls
  | .object _ => .object ""
  | c => c

theorem accCore_anonCls (env : Env) (c : Cls) (kw : Kw) (s : VSub) (a : Arg) :
    accCore env (anonCls c) kw s a = accCore env c kw s a := by
  cases c <;> rfl

mutual
/-- attribute names *and* class names forgotten -/
def anonymize : Elem → Elem
  | .mk c kw items addI cont props pats addP pn deps els =>
    .mk (anonCls c) kw (anonL items) (anonO addI) (anonO cont) (anonP props) (anonK pats) (anonO addP) (anonO pn)
      (anonK deps) (anonL els)
def anonO : Option Elem → Option Elem
  | none => none
  | some e => some (anonymize e)
def anonL : List Elem → List Elem
  | [] => []
  | e :: es => anonymize e :: anonL es
def anonP : List (Key × Elem) → List (Key × Elem)
  | [] => []
  | (k, e) :: r => (normKey k, anonymize e) :: anonP r
def anonK : List (Key × Elem) → List (Key × Elem)
  | [] => []
  | (k, e) :: r => (k, anonymize e) :: anonK r
end

theorem anonymize_kw (e : Elem) : (anonymize e).kw = e.kw := by
  cases e; rw [anonymize]; rfl

theorem anonymize_isNothing (e : Elem) : ((anonymize e).cls != .nothing) = (e.cls != .nothing) := by
  cases e with
  | mk c kw items addI cont props pats addP pn deps els =>
    rw [anonymize]
    cases c <;> rfl

mutual
/-- **Verdicts ignore attribute names and class names.** -/
theorem acc_anonymize (env : Env) : ∀ (e : Elem), (anonymize e).acc env = e.acc env
  | .mk c kw items addI cont props pats addP pn deps els => by
    funext a
    rw [anonymize, Elem.acc, Elem.acc]
    rw [accList_anon env items, accAddl_anon env addI, accOpt_anon env cont, accProps_anon env props,
      accKeyed_anon env pats, accOpt_anon env addP, accOpt_anon env pn, accKeyed_anon env deps, accList_anon env els]
    rw [accCore_anonCls]
    exact accCore_erase env c kw
      { items := accList env items, addItems := accAddl env addI, contains := accOpt env cont, props := accProps env props,
        patProps := accKeyed env pats, addProps := accOpt env addP, propNames := accOpt env pn, deps := accKeyed env deps,
        elements := accList env els } a
theorem accOpt_anon (env : Env) : ∀ (o : Option Elem), accOpt env (anonO o) = accOpt env o
  | none => by rw [anonO]
  | some e => by rw [anonO, accOpt, accOpt, acc_anonymize env e]
theorem accAddl_anon (env : Env) : ∀ (o : Option Elem), accAddl env (anonO o) = accAddl env o
  | none => by rw [anonO]
  | some e => by rw [anonO, accAddl, accAddl, acc_anonymize env e, anonymize_isNothing]
theorem accList_anon (env : Env) : ∀ (l : List Elem), accList env (anonL l) = accList env l
  | [] => by rw [anonL]
  | e :: es => by rw [anonL, accList, accList, acc_anonymize env e, accList_anon env es]
theorem accKeyed_anon (env : Env) : ∀ (l : List (Key × Elem)), accKeyed env (anonK l) = accKeyed env l
  | [] => by rw [anonK]
  | (k, e) :: r => by rw [anonK, accKeyed, accKeyed, acc_anonymize env e, accKeyed_anon env r]
theorem accProps_anon (env : Env) : ∀ (l : List (Key × Elem)), accProps env (anonP l) = propsErase (accProps env l)
  | [] => by rw [anonP, accProps]; rfl
  | (k, e) :: r => by
    rw [anonP, accProps, accProps, acc_anonymize env e, accProps_anon env r, anonymize_kw]
    rfl
end

/-- two trees that are the same once attribute names and class names are forgotten accept the same values (and treat
    "not passed" alike) -/
theorem acc_congr_of_anonymize (env : Env) (a b : Elem) (h : anonymize a = anonymize b) : a.acc env = b.acc env := by
  rw [← acc_anonymize env a, ← acc_anonymize env b, h]

end Statham
