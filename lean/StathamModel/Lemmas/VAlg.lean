/-
  Algebra of verdicts and the refinement relation used by C01/C03:
  `R a b` — the model's verdict `a` is `crash` (outside the arithmetic domain) or is the
  Boolean `b` the specification gives.
-/
import StathamModel.Acc
namespace Statham

inductive All2 {α β} (r : α → β → Prop) : List α → List β → Prop
  | nil : All2 r [] []
  | cons {a b as bs} : r a b → All2 r as bs → All2 r (a :: as) (b :: bs)

theorem All2.length_eq {α β} {r : α → β → Prop} {as : List α} {bs : List β} (h : All2 r as bs) :
    as.length = bs.length := by
  induction h with
  | nil => rfl
  | cons _ _ ih => simp [ih]

theorem All2.exists_right {α β} {r : α → β → Prop} {as : List α} {bs : List β} (h : All2 r as bs)
    {a : α} (ha : a ∈ as) : ∃ b, b ∈ bs ∧ r a b := by
  induction h with
  | nil => cases ha
  | @cons a' b' as' bs' hab _ ih =>
    rcases List.mem_cons.mp ha with h | h
    · subst h; exact ⟨b', List.mem_cons_self .., hab⟩
    · obtain ⟨b, hb, hr⟩ := ih h
      exact ⟨b, List.mem_cons_of_mem _ hb, hr⟩

theorem All2.exists_left {α β} {r : α → β → Prop} {as : List α} {bs : List β} (h : All2 r as bs)
    {b : β} (hb : b ∈ bs) : ∃ a, a ∈ as ∧ r a b := by
  induction h with
  | nil => cases hb
  | @cons a' b' as' bs' hab _ ih =>
    rcases List.mem_cons.mp hb with h | h
    · subst h; exact ⟨a', List.mem_cons_self .., hab⟩
    · obtain ⟨a, ha, hr⟩ := ih h
      exact ⟨a, List.mem_cons_of_mem _ ha, hr⟩

namespace V

@[simp] theorem and_pass_left (a : V) : V.and .pass a = a := by cases a <;> rfl
@[simp] theorem and_pass_right (a : V) : V.and a .pass = a := by cases a <;> rfl
@[simp] theorem and_crash_left (a : V) : V.and .crash a = .crash := by cases a <;> rfl
@[simp] theorem and_crash_right (a : V) : V.and a .crash = .crash := by cases a <;> rfl

theorem and_eq_pass {a b : V} : V.and a b = .pass ↔ a = .pass ∧ b = .pass := by
  cases a <;> cases b <;> simp [V.and]

theorem and_eq_crash {a b : V} : V.and a b = .crash ↔ a = .crash ∨ b = .crash := by
  cases a <;> cases b <;> simp [V.and]

@[simp] theorem ofBool_true : V.ofBool true = .pass := rfl
@[simp] theorem ofBool_false : V.ofBool false = .reject := rfl
theorem ofBool_ne_crash (b : Bool) : V.ofBool b ≠ .crash := by cases b <;> simp [V.ofBool]
theorem ofBool_eq_pass {b : Bool} : V.ofBool b = .pass ↔ b = true := by cases b <;> simp [V.ofBool]
theorem ofBool_and (a b : Bool) : (V.ofBool a).and (V.ofBool b) = V.ofBool (a && b) := by
  cases a <;> cases b <;> rfl

@[simp] theorem all_nil {α} (f : α → V) : V.all f [] = .pass := rfl
@[simp] theorem all_cons {α} (f : α → V) (a : α) (l : List α) : V.all f (a :: l) = (f a).and (V.all f l) := rfl

theorem all_eq_pass {α} {f : α → V} {l : List α} : V.all f l = .pass ↔ ∀ x ∈ l, f x = .pass := by
  induction l with
  | nil => simp
  | cons a l ih => simp [and_eq_pass, ih]

theorem all_eq_crash {α} {f : α → V} {l : List α} : V.all f l = .crash ↔ ∃ x ∈ l, f x = .crash := by
  induction l with
  | nil => simp
  | cons a l ih => simp [and_eq_crash, ih]

theorem all_append {α} (f : α → V) (l₁ l₂ : List α) :
    V.all f (l₁ ++ l₂) = (V.all f l₁).and (V.all f l₂) := by
  induction l₁ with
  | nil => simp
  | cons a l ih =>
    simp only [List.cons_append, all_cons, ih]
    cases f a <;> cases V.all f l <;> cases V.all f l₂ <;> rfl

theorem and_comm (a b : V) : V.and a b = V.and b a := by cases a <;> cases b <;> rfl
theorem and_assoc (a b c : V) : V.and (V.and a b) c = V.and a (V.and b c) := by
  cases a <;> cases b <;> cases c <;> rfl
theorem and_left_comm (a b c : V) : V.and a (V.and b c) = V.and b (V.and a c) := by
  cases a <;> cases b <;> cases c <;> rfl

instance : Std.Associative V.and := ⟨and_assoc⟩
instance : Std.Commutative V.and := ⟨and_comm⟩

theorem all_filter_split {α} (f : α → V) (p : α → Bool) (l : List α) :
    V.all f (l.filter p ++ l.filter fun x => !p x) = V.all f l := by
  induction l with
  | nil => rfl
  | cons a l ih =>
    by_cases h : p a = true
    · simp only [List.filter, h, Bool.not_true, List.cons_append, all_cons, ih]
    · have h' : p a = false := by simpa using h
      simp only [List.filter, h', Bool.not_false]
      rw [all_append, all_cons, and_left_comm, ← all_append, ih, all_cons]

theorem ofBool_all_and {α} (a : α → Bool) (b : α → V) (l : List α) :
    (V.ofBool (l.all a)).and (V.all b l) = V.all (fun d => (V.ofBool (a d)).and (b d)) l := by
  induction l with
  | nil => rfl
  | cons x l ih =>
    simp only [List.all_cons, all_cons, ← ih, ← ofBool_and]
    cases V.ofBool (a x) <;> cases V.ofBool (l.all a) <;> cases b x <;> cases V.all b l <;> rfl

theorem all_map {α β} (f : β → V) (g : α → β) (l : List α) : V.all f (l.map g) = V.all (fun a => f (g a)) l := by
  induction l with
  | nil => rfl
  | cons a l ih => simp [ih]

end V

theorem any_congr_mem {α} {p q : α → Bool} {l : List α} (h : ∀ x ∈ l, p x = q x) : l.any p = l.any q := by
  induction l with
  | nil => rfl
  | cons a l ih =>
    simp only [List.any_cons, h a (List.mem_cons_self ..), ih fun x hx => h x (List.mem_cons_of_mem _ hx)]

theorem all_congr_mem {α} {p q : α → Bool} {l : List α} (h : ∀ x ∈ l, p x = q x) : l.all p = l.all q := by
  induction l with
  | nil => rfl
  | cons a l ih =>
    simp only [List.all_cons, h a (List.mem_cons_self ..), ih fun x hx => h x (List.mem_cons_of_mem _ hx)]

/-- the model's verdict refines the specification's Boolean, up to `crash` -/
def R (a : V) (b : Bool) : Prop := a = .crash ∨ a = V.ofBool b

namespace R
theorem crash (b : Bool) : R .crash b := Or.inl rfl
theorem ofBool (b : Bool) : R (V.ofBool b) b := Or.inr rfl
theorem pass : R .pass true := Or.inr rfl
theorem reject : R .reject false := Or.inr rfl

theorem and {a₁ a₂ : V} {b₁ b₂ : Bool} (h₁ : R a₁ b₁) (h₂ : R a₂ b₂) : R (a₁.and a₂) (b₁ && b₂) := by
  rcases h₁ with h₁ | h₁ <;> rcases h₂ with h₂ | h₂ <;> subst_vars
  · exact Or.inl (by simp)
  · exact Or.inl (by simp)
  · exact Or.inl (by simp)
  · exact Or.inr (V.ofBool_and _ _)

theorem not {a : V} {b : Bool} (h : R a b) : R (notV a) (!b) := by
  rcases h with h | h <;> subst h
  · exact Or.inl rfl
  · cases b <;> exact Or.inr rfl

/-- when the model does not crash, its verdict *is* the specification's -/
theorem eq_of_ne_crash {a : V} {b : Bool} (h : R a b) (hc : a ≠ .crash) : a = V.ofBool b := by
  rcases h with h | h
  · exact absurd h hc
  · exact h

theorem congr {a : V} {b b' : Bool} (h : R a b) (e : b = b') : R a b' := e ▸ h
theorem congr2 {a a' : V} {b b' : Bool} (h : R a b) (e1 : a = a') (e2 : b = b') : R a' b' := e1 ▸ e2 ▸ h

theorem all {α} {f : α → V} {g : α → Bool} {l : List α} (h : ∀ x ∈ l, R (f x) (g x)) :
    R (V.all f l) (l.all g) := by
  induction l with
  | nil => exact Or.inr rfl
  | cons a l ih =>
    simp only [V.all_cons, List.all_cons]
    exact R.and (h a (List.mem_cons_self ..)) (ih fun x hx => h x (List.mem_cons_of_mem _ hx))

theorem all2 {α β} {f : α → V} {g : β → Bool} {as : List α} {bs : List β}
    (h : All2 (fun a b => R (f a) (g b)) as bs) : R (V.all f as) (bs.all g) := by
  induction h with
  | nil => exact Or.inr rfl
  | cons hab _ ih => simp only [V.all_cons, List.all_cons]; exact R.and hab ih

theorem any {α} {f : α → V} {g : α → Bool} {l : List α} (h : ∀ x ∈ l, R (f x) (g x)) :
    R (V.any f l) (l.any g) := by
  unfold V.any
  by_cases hc : l.any (fun a => f a == .crash) = true
  · simp only [hc, if_true]; exact Or.inl rfl
  · simp only [Bool.not_eq_true, List.any_eq_false, beq_iff_eq] at hc
    have hany : l.any (fun a => f a == .crash) = false := by
      simp only [List.any_eq_false, beq_iff_eq]; exact hc
    have hp : l.any (fun a => f a == .pass) = l.any g := any_congr_mem fun x hx => by
      have := (h x hx).eq_of_ne_crash (hc x hx)
      rw [this]; cases g x <;> rfl
    rw [hany, hp]
    exact Or.inr rfl
end R

/-! ### `_attempt_schemas` on verdicts -/

theorem all2_no_crash {vs : List V} {bs : List Bool} (h : All2 R vs bs) (hc : vs.any isCrash = false) :
    vs = bs.map V.ofBool := by
  induction h with
  | nil => rfl
  | cons hr _ ih =>
    simp only [List.any_cons, Bool.or_eq_false_iff] at hc
    rcases hr with hr | hr
    · subst hr; simp [isCrash] at hc
    · rw [List.map_cons, ← ih hc.2, hr]

theorem any_isCrash_ofBool (bs : List Bool) : (bs.map V.ofBool).any isCrash = false := by
  induction bs with
  | nil => rfl
  | cons b bs ih => cases b <;> simp [isCrash, V.ofBool, ih]

theorem any_isPass_ofBool (bs : List Bool) : (bs.map V.ofBool).any isPass = bs.any id := by
  induction bs with
  | nil => rfl
  | cons b bs ih => cases b <;> simp [isPass, V.ofBool, ih]

theorem any_isReject_ofBool (bs : List Bool) : (bs.map V.ofBool).any isReject = !bs.all id := by
  induction bs with
  | nil => rfl
  | cons b bs ih => cases b <;> simp [isReject, V.ofBool, ih]

theorem filter_isPass_ofBool (bs : List Bool) :
    ((bs.map V.ofBool).filter isPass).length = (bs.filter id).length := by
  induction bs with
  | nil => rfl
  | cons b bs ih => cases b <;> simp [isPass, V.ofBool, ih, List.filter]

theorem R_attempt_anyOf {vs : List V} {bs : List Bool} (h : All2 R vs bs) :
    R (attemptV .anyOf vs) (bs.any id) := by
  unfold attemptV
  cases hc : vs.any isCrash
  · rw [all2_no_crash h hc, any_isPass_ofBool]
    cases hb : bs.any id <;> simp [any_isCrash_ofBool] <;> first | exact R.reject | exact R.pass
  · exact R.crash _

theorem R_attempt_oneOf {vs : List V} {bs : List Bool} (h : All2 R vs bs) :
    R (attemptV .oneOf vs) ((bs.filter id).length == 1) := by
  unfold attemptV
  cases hc : vs.any isCrash
  · rw [all2_no_crash h hc, any_isPass_ofBool, filter_isPass_ofBool]
    simp only [any_isCrash_ofBool, Bool.false_eq_true, if_false]
    cases hb : bs.any id
    · have : (bs.filter id).length = 0 := by
        simp only [List.length_eq_zero_iff, List.filter_eq_nil_iff]
        intro b hbm hbt
        have : bs.any id = true := List.any_eq_true.mpr ⟨b, hbm, hbt⟩
        simp [hb] at this
      simp [this]; exact R.reject
    · simp only [Bool.not_true, Bool.false_eq_true, if_false]
      have hpos : 0 < (bs.filter id).length := by
        obtain ⟨b, hbm, hbt⟩ := List.any_eq_true.mp hb
        exact List.length_pos_of_mem (List.mem_filter.mpr ⟨hbm, hbt⟩)
      by_cases h1 : (bs.filter id).length > 1
      · simp only [h1, if_true]
        have : ((bs.filter id).length == 1) = false := by simp; omega
        rw [this]; exact R.reject
      · simp only [h1, if_false]
        have : ((bs.filter id).length == 1) = true := by simp; omega
        rw [this]; exact R.pass
  · exact R.crash _

theorem R_attempt_allOf {vs : List V} {bs : List Bool} (h : All2 R vs bs) (hne : bs ≠ []) :
    R (attemptV .allOf vs) (bs.all id) := by
  unfold attemptV
  cases hc : vs.any isCrash
  · rw [all2_no_crash h hc, any_isPass_ofBool, any_isReject_ofBool]
    simp only [any_isCrash_ofBool, Bool.false_eq_true, if_false]
    cases hall : bs.all id
    · cases hb : bs.any id <;> simp <;> exact R.reject
    · have : bs.any id = true := by
        cases bs with
        | nil => exact absurd rfl hne
        | cons b bs =>
          simp only [List.all_cons, Bool.and_eq_true, id] at hall
          simp [hall.1]
      simp [this]; exact R.pass
  · exact R.crash _

end Statham
