/-
  One schema object without composition keywords: the element `parse_element` builds for it
  refines the Draft-6 reading of its keywords.
-/
import StathamModel.Lemmas.Kids
namespace Statham

/-- everything of `validCore` except `type` and the composition keywords;
    `len` = is `required` read leniently (defaulted names waived) -/
def restOk (env : Env) (len : Bool) (k : SKw) (σ : D6.SSub) (v : JVal) : Bool :=
  D6.literalOk k v &&
  match v with
  | .num x => D6.numOk k x
  | .str s => D6.strOk env k s
  | .arr xs => D6.arrOk k xs && (D6.itemsOk k σ xs && D6.containsOk σ xs)
  | .obj kvs => D6.objSizeOk k kvs && D6.objectOk env (fun _ => len) k σ kvs
  | _ => true

theorem objectOk_len (env : Env) (ℓ : SKw → Bool) (k : SKw) (σ : D6.SSub) (kvs : List (String × JVal)) :
    D6.objectOk env ℓ k σ kvs = D6.objectOk env (fun _ => ℓ k) k σ kvs := rfl

theorem validCore_split (env : Env) (ℓ : SKw → Bool) (k : SKw) (σ : D6.SSub) (v : JVal) :
    D6.validCore env ℓ k σ v =
      ((D6.typeOk k.type v && restOk env (ℓ k) k σ v) && D6.compositionOk k σ v) := by
  unfold D6.validCore D6.scalarOk restOk
  cases v <;> simp only [objectOk_len env ℓ] <;> ac_rfl

theorem R_of_ne_pass {a : V} (h : a ≠ .pass) : R a false := by
  cases a with
  | pass => exact absurd rfl h
  | reject => exact R.reject
  | crash => exact R.crash _

/-- node-level hypotheses, phrased on the parsed children -/
structure NodeOK (cx : PCtx) (k : SKw) (kids : Kids) (σ : D6.SSub) : Prop where
  lit : litCleanNode k = true
  mul : intMultipleOf k = true
  items : match k.itemsKind with
    | .single => σ.items.length = 1
    | _ => True
  propNames : distinct (kids.props.map (·.1)) = true
  req : distinct (k.required.getD []) = true
  inj : InjOn cx (kids.props.map (·.1) ++ k.required.getD [])
  synth : typeHasObject k = true →
    kids.addProps = (none, true) ∨ ∀ n ∈ k.required.getD [], n ∈ kids.props.map (·.1)
  nonempty : ∀ n ∈ kids.props.map (·.1) ++ k.required.getD [], n ≠ ""

theorem mkElem_element (kw : Kw) (p : Parts) :
    mkElem .element (Gen.Param.names Gen.sigElement) kw p =
      .mk .element kw p.items p.addItems p.contains p.props p.patProps p.addProps p.propNames p.deps [] := by
  simp [mkElem, filterKw, keep, Gen.sigElement, Gen.Param.names]

theorem all_append_sub {l₁ l₂ : List String} (f : String → Bool) (h : ∀ x ∈ l₂, x ∈ l₁) :
    (l₁ ++ l₂).all f = l₁.all f := by
  rw [List.all_append]
  cases h1 : l₁.all f with
  | false => rfl
  | true =>
    simp only [Bool.true_and, List.all_eq_true]
    intro x hx
    exact List.all_eq_true.mp h1 x (h x hx)

/-- the closures of an element assembled from `partsOf cx k kids` -/
def subOf (env : Env) (p : Parts) : VSub :=
  { items := accList env p.items
    addItems := accAddl env p.addItems
    contains := accOpt env p.contains
    props := accProps env p.props
    patProps := accKeyed env p.patProps
    addProps := accOpt env p.addProps
    propNames := accOpt env p.propNames
    deps := accKeyed env p.deps
    elements := accList env [] }

theorem prod_eta {α β} (p : α × β) : p = (p.1, p.2) := rfl

/-- the declared-property table of a node -/
def declared (env : Env) (cx : PCtx) (k : SKw) (kids : Kids) : List VProp :=
  kids.props.map fun kv => (mkKey cx (k.required.getD []) kv.1, kv.2.kw.default, kv.2.acc env)

theorem srcs_declared (env : Env) (cx : PCtx) (k : SKw) (kids : Kids)
    (hne : ∀ n ∈ kids.props.map (·.1), n ≠ "") :
    srcs (declared env cx k kids) = kids.props.map (·.1) := by
  unfold srcs declared
  rw [List.map_map]
  apply List.map_congr_left
  intro kv hkv
  exact src_mkKey cx _ kv.1 (hne kv.1 (List.mem_map.mpr ⟨kv, hkv, rfl⟩))

theorem NodeOK.propsNonempty {cx : PCtx} {k : SKw} {kids : Kids} {σ : D6.SSub} (N : NodeOK cx k kids σ) :
    ∀ n ∈ kids.props.map (·.1), n ≠ "" := fun n hn => N.nonempty n (List.mem_append_left _ hn)

theorem NodeOK.propsNonempty' {cx : PCtx} {k : SKw} {kids : Kids} {σ : D6.SSub} (N : NodeOK cx k kids σ) :
    ∀ kv ∈ kids.props, kv.1 ≠ "" := fun kv hkv => N.propsNonempty kv.1 (List.mem_map.mpr ⟨kv, hkv, rfl⟩)

theorem inj_props {cx : PCtx} {k : SKw} {kids : Kids} {σ : D6.SSub} (N : NodeOK cx k kids σ) :
    InjOn cx (kids.props.map (·.1)) :=
  fun a ha b hb => N.inj a (List.mem_append_left _ ha) b (List.mem_append_left _ hb)

theorem accProps_build (env : Env) (cx : PCtx) (k : SKw) (kids : Kids) (σ : D6.SSub) (N : NodeOK cx k kids σ) :
    accProps env (buildProps cx (k.required.getD []) kids.props) = declared env cx k kids := by
  rw [buildProps_map cx _ _ N.propNames (inj_props N), accProps_map]
  rfl

theorem addlP_of_kids {env : Env} {kids : Kids} {σ : D6.SSub} (K : KidsRel env kids σ) (b : Bool)
    (hb : b = kids.addProps.2) : AddlRelP (accOpt env kids.addProps.1) b σ.addProps := by
  subst hb
  have := K.addProps
  rw [prod_eta kids.addProps] at this
  exact accAddlP_rel this

theorem addl_of_kids {env : Env} {kids : Kids} {σ : D6.SSub} (K : KidsRel env kids σ) (b : Bool)
    (hb : b = kids.addItems.2) : AddlRel (accAddl env kids.addItems.1) b σ.addItems := by
  subst hb
  have := K.addItems
  rw [prod_eta kids.addItems] at this
  exact accAddl_rel this

theorem setup_untyped {env : Env} {cx : PCtx} {k : SKw} {kids : Kids} {σ : D6.SSub}
    (K : KidsRel env kids σ) (N : NodeOK cx k kids σ) (kw : Kw) (hb : kw.addPropsB = kids.addProps.2) :
    ObjSetup env kw (subOf env (partsOf cx k kids)) σ (declared env cx k kids) [] where
  split := by
    simp only [subOf, partsOf, List.append_nil]
    exact accProps_build env cx k kids σ N
  decl := props_rel K.props N.propsNonempty'
  dist := by rw [List.append_nil, srcs_declared _ _ _ _ N.propsNonempty]; exact N.propNames
  synth := fun p hp => by cases hp
  perm := fun h => absurd rfl h
  pats := by
    simp only [subOf, partsOf]
    rw [accKeyed_map env (fun n => ({ name := n } : Key))]
    exact pats_rel K.patProps
  addl := addlP_of_kids K _ hb

theorem deps_split (env : Env) (cx : PCtx) (k : SKw) (kids : Kids) :
    (subOf env (partsOf cx k kids)).deps =
      ((kids.deps.map fun p => (p.1, p.2.acc env)).filter isNamesDep) ++
        ((kids.deps.map fun p => (p.1, p.2.acc env)).filter fun d => !isNamesDep d) := by
  simp only [subOf, partsOf]
  exact orderDeps_acc env kids.deps

/-- `required` on an untyped element: the explicit list already contains the flagged properties -/
theorem required_strict (env : Env) (cx : PCtx) (k : SKw) (kids : Kids) (σ : D6.SSub) (d : Option JVal)
    (p : Parts) (kvs : List (String × JVal)) (hne : ∀ kv ∈ kids.props, kv.1 ≠ "") :
    ((requiredNames (baseKw k p d) ((declared env cx k kids).map fun q => (q.1, q.2.1))).all
        fun n => (JVal.keys kvs).contains n) = D6.requiredOk false k σ kvs := by
  unfold requiredNames D6.requiredOk
  simp only [baseKw, Bool.false_and, Bool.or_false]
  apply all_append_sub
  intro x hx
  obtain ⟨q, hq, rfl⟩ := List.mem_map.mp hx
  have hq' := (List.mem_filter.mp hq).2
  simp only [Bool.and_eq_true] at hq'
  obtain ⟨q0, hq0, rfl⟩ := List.mem_map.mp (List.mem_filter.mp hq).1
  obtain ⟨kv, hkv, rfl⟩ := List.mem_map.mp hq0
  simp only [mkKey] at hq'
  show (mkKey cx (k.required.getD []) kv.1).src ∈ _
  rw [src_mkKey cx _ kv.1 (hne kv hkv)]
  simpa using hq'.1

theorem RC_untyped {env : Env} {cx : PCtx} {k : SKw} {kids : Kids} {σ : D6.SSub} (d : Option JVal)
    (K : KidsRel env kids σ) (N : NodeOK cx k kids σ) :
    RC ((mkElem .element (Gen.Param.names Gen.sigElement) (baseKw k (partsOf cx k kids) d)
          (partsOf cx k kids)).acc env) (restOk env false k σ) := by
  refine ⟨fun v hv => ?_, acc_notPassed_ne_reject env _⟩
  rw [mkElem_element, Elem.acc]
  show R (createV env .element (baseKw k (partsOf cx k kids) d) (subOf env (partsOf cx k kids)) v) _
  unfold createV validators restOk
  simp only [typeOk, V.ofBool_true, V.and_pass_left]
  rw [literalChecks_spec k _ d v N.lit]
  cases v with
  | null => simpa [constructV] using R.ofBool _
  | bool b => simpa [constructV] using R.ofBool _
  | num x =>
    simp only [constructV, numChecks_spec k _ d x N.mul, V.ofBool_and, V.and_pass_right]
    exact R.ofBool _
  | str s =>
    simp only [constructV, strChecks_spec env k _ d s, V.ofBool_and, V.and_pass_right]
    exact R.ofBool _
  | arr xs =>
    simp only [constructV, arrChecks_spec k _ d xs]
    have hA := R_array (baseKw k (partsOf cx k kids) d) k (subOf env (partsOf cx k kids)) σ xs rfl
      (accList_rel K.items)
      (by have := N.items; cases hk : k.itemsKind <;> simp_all)
      (addl_of_kids K _ rfl) (accOpt_rel K.contains) (distinctKeys_arr hv)
    have := R.and (R.ofBool (D6.literalOk k (.arr xs))) (R.and (R.ofBool (D6.arrOk k xs)) hA)
    refine this.congr2 ?_ ?_ <;> ac_rfl
  | obj kvs =>
    simp only [constructV, additionalPropsCheck, V.and_pass_right]
    have S := setup_untyped K N (baseKw k (partsOf cx k kids) d) rfl
    have hO := R_object (k := k) (fun _ => false) kvs S hv rfl rfl
      (by rw [S.split, List.append_nil]; exact required_strict env cx k kids σ d _ kvs N.propsNonempty')
      (accOpt_rel K.propNames) (deps_split env cx k kids) (deps_rel K.deps)
    have := R.and (R.ofBool (D6.literalOk k (.obj kvs))) hO
    refine this.congr2 ?_ ?_ <;> ac_rfl

end Statham
