/-
  The keyword validators against the Draft-6 clauses, value kind by value kind.
  These are the obligations that break when a comparison operator, a `types` guard or a
  keyword name changes in the library (the predicates come from `Gen/Validators.lean`).
-/
import StathamModel.Lemmas.AccBasics
import StathamModel.Spec.Draft6
import StathamModel.Good
namespace Statham

theorem Num.not_lt (a b : Num) : (!Num.lt a b) = Num.le b a := by
  unfold Num.lt Num.le
  by_cases h : a.numer * b.denom < b.numer * a.denom
  · have : ¬ (b.numer * a.denom ≤ a.numer * b.denom) := by omega
    simp [h, this]
  · have : b.numer * a.denom ≤ a.numer * b.denom := by omega
    simp [h, this]

theorem Num.not_le (a b : Num) : (!Num.le a b) = Num.lt b a := by
  unfold Num.lt Num.le
  by_cases h : a.numer * b.denom ≤ b.numer * a.denom
  · have : ¬ (b.numer * a.denom < a.numer * b.denom) := by omega
    simp [h, this]
  · have : b.numer * a.denom < a.numer * b.denom := by omega
    simp [h, this]

theorem optCheck_ofBool {α} (o : Option α) (f : α → Bool) :
    optCheck o (fun a => V.ofBool (f a)) = V.ofBool (D6.optB o f) := by
  cases o <;> rfl

theorem R_optCheck {α} {o : Option α} {f : α → V} {g : α → Bool} (h : ∀ a, R (f a) (g a)) :
    R (optCheck o f) (D6.optB o g) := by
  cases o with
  | none => exact R.pass
  | some a => exact h a

/-! ### const / enum -/

theorem parseLiteral_clean : ∀ (v : JVal), litClean v = true → parseLiteral v = v
  | .null, _ => by simp [parseLiteral]
  | .bool _, _ => by simp [parseLiteral]
  | .num _, _ => by simp [parseLiteral]
  | .str _, _ => by simp [parseLiteral]
  | .arr xs, h => by
    rw [parseLiteral, parseLits_clean xs (by simpa [litClean] using h)]
  | .obj kvs, h => by
    rw [parseLiteral, parseLitKV_clean kvs (by simpa [litClean] using h)]
where
  parseLits_clean : ∀ (xs : List JVal), litClean.cleanL xs = true → parseLiteral.lits xs = xs
    | [], _ => by rw [parseLiteral.lits]
    | x :: xs, h => by
      simp only [litClean.cleanL, Bool.and_eq_true] at h
      rw [parseLiteral.lits, parseLiteral_clean x h.1, parseLits_clean xs h.2]
  parseLitKV_clean : ∀ (kvs : List (String × JVal)), litClean.cleanKV kvs = true → parseLiteral.litKV kvs = kvs
    | [], _ => by rw [parseLiteral.litKV]
    | (k, v) :: r, h => by
      simp only [litClean.cleanKV, Bool.and_eq_true, bne_iff_ne, ne_eq] at h
      rw [parseLiteral.litKV, if_neg h.1.1, parseLiteral_clean v h.1.2, parseLitKV_clean r h.2]

theorem map_parseLiteral_clean (l : List JVal) (h : l.all litClean = true) : l.map parseLiteral = l := by
  induction l with
  | nil => rfl
  | cons x xs ih =>
    simp only [List.all_cons, Bool.and_eq_true] at h
    rw [List.map_cons, parseLiteral_clean x h.1, ih h.2]

/-- `Const`/`Enum` are Draft-6 instance equality against the schema's literal -/
theorem literalChecks_spec (k : SKw) (p : Parts) (d : Option JVal) (v : JVal) (h : litCleanNode k = true) :
    literalChecks (baseKw k p d) v =
      V.ofBool (D6.literalOk k v) := by
  unfold D6.literalOk
  unfold litCleanNode at h
  simp only [Bool.and_eq_true] at h
  obtain ⟨⟨hc, he⟩, _⟩ := h
  unfold literalChecks baseKw
  simp only
  cases hcc : k.const with
  | none =>
    cases hee : k.enum with
    | none => rfl
    | some l =>
      have := map_parseLiteral_clean l (by simpa [optAll, hee] using he)
      simp [optCheck, D6.optB, this]
  | some c =>
    have hc' : parseLiteral c = c := parseLiteral_clean c (by simpa [optAll, hcc] using hc)
    cases hee : k.enum with
    | none => simp [optCheck, D6.optB, hc']
    | some l =>
      have := map_parseLiteral_clean l (by simpa [optAll, hee] using he)
      simp [optCheck, D6.optB, this, hc', V.ofBool_and]

/-! ### numbers -/

theorem multipleOfCheck_int (x : Num) (i : Int) (h0 : 0 < i) (h1 : i < 9007199254740992) :
    multipleOfCheck x (.int i) = V.ofBool (D6.isMultiple x (.int i)) := by
  unfold multipleOfCheck D6.isMultiple
  have hne : (i == 0) = false := by simp; omega
  simp only [hne, Bool.false_eq_true, if_false]
  cases x with
  | int xi => simp [Num.numer, Num.denom]
  | flt n d =>
    have hs : i.natAbs < pow2 53 := by
      have : pow2 53 = 9007199254740992 := by decide
      omega
    simp [toDouble, hs, Num.numer, Num.denom]

theorem numChecks_spec (k : SKw) (p : Parts) (d : Option JVal) (x : Num) (h : intMultipleOf k = true) :
    numChecks (baseKw k p d) x = V.ofBool (D6.numOk k x) := by
  unfold numChecks D6.numOk baseKw
  simp only [Gen.Minimum.fails, Gen.Maximum.fails, Gen.ExclusiveMinimum.fails, Gen.ExclusiveMaximum.fails,
    Num.not_lt, Num.not_le, optCheck_ofBool]
  have hm : optCheck k.multipleOf (fun m => multipleOfCheck x m) =
      V.ofBool (D6.optB k.multipleOf fun m => D6.isMultiple x m) := by
    unfold intMultipleOf optAll at h
    cases hk : k.multipleOf with
    | none => rfl
    | some m =>
      rw [hk] at h
      cases m with
      | int i =>
        simp only [Bool.and_eq_true, decide_eq_true_eq] at h
        simp only [optCheck, D6.optB]
        exact multipleOfCheck_int x i h.1 h.2
      | flt _ _ => simp at h
  rw [hm]
  simp only [V.ofBool_and, Bool.and_assoc]

theorem strChecks_spec (env : Env) (k : SKw) (p : Parts) (d : Option JVal) (s : String) :
    strChecks env (baseKw k p d) s = V.ofBool (D6.strOk env k s) := by
  unfold strChecks D6.strOk baseKw
  simp only [Gen.MinLength.fails, Gen.MaxLength.fails, Num.not_lt, optCheck_ofBool, JVal.strLen]
  cases hfm : k.format with
  | none => simp [optCheck, D6.optB, V.ofBool_and, Bool.and_assoc]
  | some f =>
    cases hc : env.fmt f with
    | none => simp [optCheck, D6.optB, V.ofBool_and, Bool.and_assoc, hc]
    | some c => simp [optCheck, D6.optB, V.ofBool_and, Bool.and_assoc, hc]

theorem hasDup_eq (xs : List JVal) : hasDup xs = D6.hasDupJ xs := by
  induction xs with
  | nil => rfl
  | cons x xs ih => simp [hasDup, D6.hasDupJ, ih]

theorem arrChecks_spec (k : SKw) (p : Parts) (d : Option JVal) (xs : List JVal) :
    arrChecks (baseKw k p d) xs = V.ofBool (D6.arrOk k xs) := by
  unfold arrChecks D6.arrOk baseKw
  simp only [Gen.MinItems.fails, Gen.MaxItems.fails, Num.not_lt, optCheck_ofBool, hasDup_eq, V.ofBool_and, Bool.and_assoc]

end Statham
