/-
  Evaluating the printed form of an element tree gives the tree back (lemmas for `Props/C18`).
-/
import StathamModel.Py.EvalTree
import StathamModel.Lemmas.EvalLeaf
namespace Statham.PyEval

theorem setArg_lit (s : St) (n : String) (v : JVal) :
    setArg s n (.lit v) = (setLit s.kw n (.lit v)).map fun kw => { s with kw := kw } := by
  unfold setArg
  split <;> first | rfl | simp_all

/-! ### the value each keyword is printed with, at the level of evaluated values -/

def propEntry (p : Key × Elem) : String × PyVal :=
  (p.1.name, .prop p.1.required (if p.1.src == p.1.name then none else some p.1.src) p.2)
def patEntry (p : Key × Elem) : String × PyVal := (p.1.name, .elem p.2)
def depEntry (p : Key × Elem) : String × PyVal :=
  (p.1.name, match p.1.names with | some l => .lit (.arr (l.map JVal.str)) | none => .elem p.2)

def numV (n : Num) : PyVal := .lit (.num n)

def propEntryE (p : Key × Elem) : String × Entry :=
  (p.1.name, .prop p.1.required (if p.1.src == p.1.name then none else some p.1.src) p.2)
def patEntryE (p : Key × Elem) : String × Entry := (p.1.name, .elem p.2)
def depEntryE (p : Key × Elem) : String × Entry :=
  (p.1.name, match p.1.names with | some l => .names l | none => .elem p.2)

theorem toEntries_prop (l : List (Key × Elem)) : toEntries (l.map propEntry) = some (l.map propEntryE) := by
  induction l with
  | nil => rfl
  | cons a r ih => simp [toEntries, ih, propEntry, propEntryE, toEntry]

theorem toEntries_pat (l : List (Key × Elem)) : toEntries (l.map patEntry) = some (l.map patEntryE) := by
  induction l with
  | nil => rfl
  | cons a r ih => simp [toEntries, ih, patEntry, patEntryE, toEntry]

theorem toEntries_dep (l : List (Key × Elem)) : toEntries (l.map depEntry) = some (l.map depEntryE) := by
  induction l with
  | nil => rfl
  | cons a r ih =>
    obtain ⟨k, e⟩ := a
    cases hk : k.names <;> simp [toEntries, ih, depEntry, depEntryE, toEntry, hk, decodeStrs_map]

def kwVal (t : St) (name : String) : Option PyVal :=
  match name with
  | "default" => t.kw.default.map PyVal.lit
  | "const" => t.kw.const.map PyVal.lit
  | "enum" => t.kw.enum.map fun l => PyVal.lit (.arr l)
  | "items" => (match t.kw.itemsKind with
    | .none => none
    | .single => t.items.head?.map PyVal.elem
    | .tuple => some (.elems t.items))
  | "additionalItems" => (match t.addItems with
    | some e => some (.elem e)
    | none => if t.kw.addItemsB then none else some (.lit (.bool false)))
  | "minItems" => t.kw.minItems.map numV
  | "maxItems" => t.kw.maxItems.map numV
  | "uniqueItems" => if t.kw.uniqueItems then some (.lit (.bool true)) else none
  | "contains" => t.contains.map PyVal.elem
  | "minimum" => t.kw.minimum.map numV
  | "maximum" => t.kw.maximum.map numV
  | "exclusiveMinimum" => t.kw.exclusiveMinimum.map numV
  | "exclusiveMaximum" => t.kw.exclusiveMaximum.map numV
  | "multipleOf" => t.kw.multipleOf.map numV
  | "format" => t.kw.format.map fun s => PyVal.lit (.str s)
  | "pattern" => t.kw.pattern.map fun s => PyVal.lit (.str s)
  | "minLength" => t.kw.minLength.map numV
  | "maxLength" => t.kw.maxLength.map numV
  | "required" => t.kw.required.map fun l => PyVal.lit (.arr (l.map JVal.str))
  | "properties" => if t.kw.hasProps then some (.entries (t.props.map propEntryE)) else none
  | "patternProperties" => if t.kw.hasPatProps then some (.entries (t.patProps.map patEntryE)) else none
  | "additionalProperties" => (match t.addProps with
    | some e => some (.elem e)
    | none => if t.kw.addPropsB then none else some (.lit (.bool false)))
  | "minProperties" => t.kw.minProperties.map numV
  | "maxProperties" => t.kw.maxProperties.map numV
  | "propertyNames" => t.propNames.map PyVal.elem
  | "dependencies" => if t.kw.hasDeps then some (.entries (t.deps.map depEntryE)) else none
  | "description" => t.kw.description.map fun s => PyVal.lit (.str s)
  | _ => none

def depExpr (d : Key × PyExpr) : String × PyExpr :=
  (d.1.name, match d.1.names with
    | some l => PyExpr.lit (.arr (l.map JVal.str))
    | none => d.2)

def evalO (env : String → Option Elem) : Option PyExpr → Option (Option PyVal)
  | none => some none
  | some x => (evalV env x).map some

/-- the rendered sub-elements evaluate to the sub-elements -/
structure EvalKids (env : String → Option Elem) (rk : ReprKids) (t : St) : Prop where
  items : evalVs env rk.items = some (t.items.map PyVal.elem)
  addItems : evalO env rk.addItems = some (t.addItems.map PyVal.elem)
  contains : evalO env rk.contains = some (t.contains.map PyVal.elem)
  props : evalKVs env (rk.props.map fun p => (p.1.name, propExpr p.1 p.2)) = some (t.props.map propEntry)
  patProps : evalKVs env (rk.patProps.map fun p => (p.1.name, p.2)) = some (t.patProps.map patEntry)
  addProps : evalO env rk.addProps = some (t.addProps.map PyVal.elem)
  propNames : evalO env rk.propNames = some (t.propNames.map PyVal.elem)
  deps : evalKVs env (rk.deps.map depExpr) = some (t.deps.map depEntry)
  elements : evalVs env rk.elements = some (t.elements.map PyVal.elem)

theorem allElems_map (l : List Elem) : allElems (l.map PyVal.elem) = some l := by
  induction l with
  | nil => rfl
  | cons a r ih => simp [allElems, ih]


theorem evalV_list (env) (xs : List PyExpr) (es : List Elem) (h : evalVs env xs = some (es.map PyVal.elem)) :
    evalV env (.list xs) = some (.elems es) := by
  rw [evalV, h]; simp [allElems_map]

theorem evalV_dict (env) (kvs : List (String × PyExpr)) (vs : List (String × PyVal)) (h : evalKVs env kvs = some vs) :
    evalV env (.dict kvs) = (toEntries vs).map PyVal.entries := by
  rw [evalV, h]

theorem evalO_map {α} (env) (o : Option α) (f : α → PyExpr) (g : α → PyVal) (h : ∀ a, evalV env (f a) = some (g a)) :
    evalO env (o.map f) = some (o.map g) := by
  cases o with
  | none => rfl
  | some a => simp [evalO, h]

theorem evalVs_head (env) (xs : List PyExpr) (es : List Elem) (h : evalVs env xs = some (es.map PyVal.elem)) :
    evalO env xs.head? = some (es.head?.map PyVal.elem) := by
  cases xs with
  | nil =>
    cases es with
    | nil => rfl
    | cons e r => simp [evalVs] at h
  | cons x r =>
    rw [evalVs] at h
    cases hx : evalV env x with
    | none => simp [hx] at h
    | some v =>
      cases hr : evalVs env r with
      | none => simp [hx, hr] at h
      | some vs =>
        simp only [hx, hr, Option.some.injEq] at h
        cases es with
        | nil => simp at h
        | cons e r' =>
          simp only [List.map_cons, List.cons.injEq] at h
          simp [evalO, hx, h.1]

theorem evalO_kwExpr (env) (rk : ReprKids) (t : St) (h : EvalKids env rk t) (name : String) :
    evalO env (kwExpr t.kw rk name) = some (kwVal t name) := by
  unfold kwExpr kwVal
  split
  all_goals try (simp only []; exact evalO_map env _ _ _ (fun _ => rfl))
  · -- items
    simp only []
    cases t.kw.itemsKind with
    | none => rfl
    | single => exact evalVs_head env _ _ h.items
    | tuple => simp only [evalO, evalV_list env _ _ h.items, Option.map_some]
  · simp only []
    have := h.addItems
    cases h1 : rk.addItems <;> cases h2 : t.addItems <;> cases t.kw.addItemsB <;> simp_all [evalO, evalV]
  · simp only []; cases t.kw.uniqueItems <;> simp [evalO, evalV]
  · simp only []; exact h.contains
  · simp only []
    cases t.kw.hasProps with
    | false => rfl
    | true => simp only [if_true, evalO, evalV_dict env _ _ h.props, toEntries_prop, Option.map_some]
  · simp only []
    cases t.kw.hasPatProps with
    | false => rfl
    | true => simp only [if_true, evalO, evalV_dict env _ _ h.patProps, toEntries_pat, Option.map_some]
  · simp only []
    have := h.addProps
    cases h1 : rk.addProps <;> cases h2 : t.addProps <;> cases t.kw.addPropsB <;> simp_all [evalO, evalV]
  · simp only []; exact h.propNames
  · simp only []
    cases t.kw.hasDeps with
    | false => rfl
    | true =>
      show evalO env (some (.dict (rk.deps.map depExpr))) = _
      simp only [if_true, evalO, evalV_dict env _ _ h.deps, toEntries_dep, Option.map_some]
  · split <;> first | rfl | simp_all


def kwargsValOf (sig : List Gen.Param) (t : St) : List (String × PyVal) :=
  (sig.filter fun p => p.kind == .keywordOnly).filterMap fun p => (kwVal t p.name).map fun v => (p.name, v)

theorem evalKVs_filterMap (env) (rk : ReprKids) (t : St) (h : EvalKids env rk t) (L : List Gen.Param) :
    evalKVs env (L.filterMap fun p => (kwExpr t.kw rk p.name).map fun e => (p.name, e)) =
      some (L.filterMap fun p => (kwVal t p.name).map fun v => (p.name, v)) := by
  induction L with
  | nil => rfl
  | cons p r ih =>
    have hk := evalO_kwExpr env rk t h p.name
    rw [List.filterMap_cons, List.filterMap_cons]
    cases hx : kwExpr t.kw rk p.name with
    | none =>
      rw [hx] at hk
      simp only [evalO, Option.some.injEq] at hk
      simp only [Option.map_none, ← hk]
      exact ih
    | some x =>
      rw [hx] at hk
      simp only [evalO] at hk
      cases hv : evalV env x with
      | none => simp [hv] at hk
      | some v =>
        simp only [hv, Option.map_some, Option.some.injEq] at hk
        simp only [Option.map_some, ← hk, evalKVs, hv, ih]

theorem evalKVs_kwargsOf (env) (rk : ReprKids) (t : St) (h : EvalKids env rk t) (sig : List Gen.Param) :
    evalKVs env (kwargsOf sig t.kw rk) = some (kwargsValOf sig t) :=
  evalKVs_filterMap env rk t h _

theorem accepts_kwargsValOf (sig : List Gen.Param) (t : St) : accepts sig (kwargsValOf sig t) = true := by
  unfold accepts kwargsValOf
  rw [List.all_eq_true]
  intro a ha
  obtain ⟨p, hp, hpa⟩ := List.mem_filterMap.mp ha
  obtain ⟨hp1, hp2⟩ := List.mem_filter.mp hp
  cases hk : kwVal t p.name with
  | none => simp [hk] at hpa
  | some v =>
    simp only [hk, Option.map_some, Option.some.injEq] at hpa
    rw [List.any_eq_true]
    exact ⟨p, hp1, by rw [← hpa]; simpa using hp2⟩


/-- one keyword argument: printed as `ov`, assigned by `upd` -/
def StepOK (name : String) (ov : Option PyVal) (upd : St → St) : Prop :=
  ∀ s, (ov = none → upd s = s) ∧ (∀ v, ov = some v → setArg s name v = some (upd s))

theorem applyVals_gen (name : String) (ov : Option PyVal) (upd : St → St) (h : StepOK name ov upd) (s : St)
    (r : List (String × PyVal)) :
    applyVals s ((ov.map fun v => (name, v)).toList ++ r) = applyVals (upd s) r := by
  cases ov with
  | none => simp [(h s).1 rfl]
  | some v => simp [applyVals, (h s).2 v rfl]

theorem stepOK_lit {α} (name : String) (mk : α → JVal) (u : Kw → Option α → Kw) (o : Option α)
    (h1 : ∀ k a, setLit k name (.lit (mk a)) = some (u k (some a))) (h0 : ∀ k, u k none = k) :
    StepOK name (o.map fun a => PyVal.lit (mk a)) (fun s => { s with kw := u s.kw o }) := by
  intro s
  cases o with
  | none => simp [h0]
  | some a => simp [setArg_lit, h1]

theorem step_default (t : St) : StepOK "default" (kwVal t "default") (fun s => { s with kw := uDefault s.kw t.kw.default }) :=
  stepOK_lit "default" id uDefault t.kw.default (fun _ _ => rfl) (fun _ => rfl)
theorem step_const (t : St) : StepOK "const" (kwVal t "const") (fun s => { s with kw := uConst s.kw t.kw.const }) :=
  stepOK_lit "const" id uConst t.kw.const (fun _ _ => rfl) (fun _ => rfl)
theorem step_enum (t : St) : StepOK "enum" (kwVal t "enum") (fun s => { s with kw := uEnum s.kw t.kw.enum }) :=
  stepOK_lit "enum" JVal.arr uEnum t.kw.enum (fun _ _ => rfl) (fun _ => rfl)
theorem step_description (t : St) :
    StepOK "description" (kwVal t "description") (fun s => { s with kw := uDescription s.kw t.kw.description }) :=
  stepOK_lit "description" JVal.str uDescription t.kw.description (fun _ _ => rfl) (fun _ => rfl)
theorem step_required (t : St) :
    StepOK "required" (kwVal t "required") (fun s => { s with kw := uRequired s.kw t.kw.required }) :=
  stepOK_lit "required" (fun (l : List String) => JVal.arr (l.map JVal.str)) uRequired t.kw.required
    (fun k a => by simp [setLit, decodeStrs_map, uRequired]) (fun _ => rfl)
theorem step_minItems (t : St) : StepOK "minItems" (kwVal t "minItems") (fun s => { s with kw := uMinItems s.kw t.kw.minItems }) :=
  stepOK_lit "minItems" JVal.num uMinItems t.kw.minItems (fun _ _ => rfl) (fun _ => rfl)
theorem step_maxItems (t : St) : StepOK "maxItems" (kwVal t "maxItems") (fun s => { s with kw := uMaxItems s.kw t.kw.maxItems }) :=
  stepOK_lit "maxItems" JVal.num uMaxItems t.kw.maxItems (fun _ _ => rfl) (fun _ => rfl)
theorem step_minimum (t : St) : StepOK "minimum" (kwVal t "minimum") (fun s => { s with kw := uMinimum s.kw t.kw.minimum }) :=
  stepOK_lit "minimum" JVal.num uMinimum t.kw.minimum (fun _ _ => rfl) (fun _ => rfl)
theorem step_maximum (t : St) : StepOK "maximum" (kwVal t "maximum") (fun s => { s with kw := uMaximum s.kw t.kw.maximum }) :=
  stepOK_lit "maximum" JVal.num uMaximum t.kw.maximum (fun _ _ => rfl) (fun _ => rfl)
theorem step_exclusiveMinimum (t : St) : StepOK "exclusiveMinimum" (kwVal t "exclusiveMinimum") (fun s => { s with kw := uExMin s.kw t.kw.exclusiveMinimum }) :=
  stepOK_lit "exclusiveMinimum" JVal.num uExMin t.kw.exclusiveMinimum (fun _ _ => rfl) (fun _ => rfl)
theorem step_exclusiveMaximum (t : St) : StepOK "exclusiveMaximum" (kwVal t "exclusiveMaximum") (fun s => { s with kw := uExMax s.kw t.kw.exclusiveMaximum }) :=
  stepOK_lit "exclusiveMaximum" JVal.num uExMax t.kw.exclusiveMaximum (fun _ _ => rfl) (fun _ => rfl)
theorem step_multipleOf (t : St) : StepOK "multipleOf" (kwVal t "multipleOf") (fun s => { s with kw := uMultipleOf s.kw t.kw.multipleOf }) :=
  stepOK_lit "multipleOf" JVal.num uMultipleOf t.kw.multipleOf (fun _ _ => rfl) (fun _ => rfl)
theorem step_minLength (t : St) : StepOK "minLength" (kwVal t "minLength") (fun s => { s with kw := uMinLength s.kw t.kw.minLength }) :=
  stepOK_lit "minLength" JVal.num uMinLength t.kw.minLength (fun _ _ => rfl) (fun _ => rfl)
theorem step_maxLength (t : St) : StepOK "maxLength" (kwVal t "maxLength") (fun s => { s with kw := uMaxLength s.kw t.kw.maxLength }) :=
  stepOK_lit "maxLength" JVal.num uMaxLength t.kw.maxLength (fun _ _ => rfl) (fun _ => rfl)
theorem step_minProperties (t : St) : StepOK "minProperties" (kwVal t "minProperties") (fun s => { s with kw := uMinProps s.kw t.kw.minProperties }) :=
  stepOK_lit "minProperties" JVal.num uMinProps t.kw.minProperties (fun _ _ => rfl) (fun _ => rfl)
theorem step_maxProperties (t : St) : StepOK "maxProperties" (kwVal t "maxProperties") (fun s => { s with kw := uMaxProps s.kw t.kw.maxProperties }) :=
  stepOK_lit "maxProperties" JVal.num uMaxProps t.kw.maxProperties (fun _ _ => rfl) (fun _ => rfl)
theorem step_format (t : St) : StepOK "format" (kwVal t "format") (fun s => { s with kw := uFormat s.kw t.kw.format }) :=
  stepOK_lit "format" JVal.str uFormat t.kw.format (fun _ _ => rfl) (fun _ => rfl)
theorem step_pattern (t : St) : StepOK "pattern" (kwVal t "pattern") (fun s => { s with kw := uPattern s.kw t.kw.pattern }) :=
  stepOK_lit "pattern" JVal.str uPattern t.kw.pattern (fun _ _ => rfl) (fun _ => rfl)

theorem step_uniqueItems (t : St) :
    StepOK "uniqueItems" (kwVal t "uniqueItems") (fun s => { s with kw := uUnique s.kw t.kw.uniqueItems }) := by
  intro s
  show (kwVal t "uniqueItems" = none → _) ∧ _
  have hk : kwVal t "uniqueItems" = if t.kw.uniqueItems then some (.lit (.bool true)) else none := rfl
  rw [hk]
  cases t.kw.uniqueItems with
  | false => simp [uUnique]
  | true => simp [setArg_lit, setLit, uUnique]

theorem step_contains (t : St) :
    StepOK "contains" (kwVal t "contains") (fun s => { s with contains := t.contains.or s.contains }) := by
  intro s
  have hk : kwVal t "contains" = t.contains.map PyVal.elem := rfl
  rw [hk]
  cases t.contains with
  | none => simp
  | some e => simp [setArg]

theorem step_propertyNames (t : St) :
    StepOK "propertyNames" (kwVal t "propertyNames") (fun s => { s with propNames := t.propNames.or s.propNames }) := by
  intro s
  have hk : kwVal t "propertyNames" = t.propNames.map PyVal.elem := rfl
  rw [hk]
  cases t.propNames with
  | none => simp
  | some e => simp [setArg]

theorem step_additionalItems (t : St) (h : t.addItems.isSome = true → t.kw.addItemsB = true) :
    StepOK "additionalItems" (kwVal t "additionalItems")
      (fun s => { s with kw := uAddItems s.kw t.kw.addItemsB, addItems := t.addItems.or s.addItems }) := by
  intro s
  have hk : kwVal t "additionalItems" = (match t.addItems with
    | some e => some (.elem e)
    | none => if t.kw.addItemsB then none else some (.lit (.bool false))) := rfl
  rw [hk]
  cases ha : t.addItems with
  | none => cases hb : t.kw.addItemsB <;> simp [uAddItems, setArg_lit, setLit]
  | some e =>
    have := h (by rw [ha]; rfl)
    simp [setArg, uAddItems, this]

theorem step_additionalProperties (t : St) (h : t.addProps.isSome = true → t.kw.addPropsB = true) :
    StepOK "additionalProperties" (kwVal t "additionalProperties")
      (fun s => { s with kw := uAddProps s.kw t.kw.addPropsB, addProps := t.addProps.or s.addProps }) := by
  intro s
  have hk : kwVal t "additionalProperties" = (match t.addProps with
    | some e => some (.elem e)
    | none => if t.kw.addPropsB then none else some (.lit (.bool false))) := rfl
  rw [hk]
  cases ha : t.addProps with
  | none => cases hb : t.kw.addPropsB <;> simp [uAddProps, setArg_lit, setLit]
  | some e =>
    have := h (by rw [ha]; rfl)
    simp [setArg, uAddProps, this]


/-- a bound property: `source` is set (binding fills it in with the attribute name) -/
def BoundKey (k : Key) : Prop := k.source = some k.src ∧ k.names = none
def PatKey (k : Key) : Prop := k = { name := k.name }
def DepOK (p : Key × Elem) : Prop :=
  p.1 = { name := p.1.name } ∨ ∃ l, p.1 = { name := p.1.name, names := some l } ∧ p.2 = Elem.trivial

theorem Key.src_empty (k : Key) (h : k.src = "") : k.name = "" := by
  unfold Key.src at h
  cases hs : k.source with
  | none => simpa [hs] using h
  | some s =>
    simp only [hs] at h
    by_cases he : s = ""
    · simpa [he] using h
    · simp [he] at h

theorem bindProp_entry (k : Key) (e : Elem) (h : BoundKey k) :
    bindProp (propEntryE (k, e)).1 (propEntryE (k, e)).2 = some (k, e) := by
  obtain ⟨hs, hn⟩ := h
  simp only [propEntryE, bindProp]
  have : boundSource k.name (if (k.src == k.name) = true then none else some k.src) = k.src := by
    by_cases hq : k.src = k.name
    · simp [hq, boundSource]
    · have hne : k.src ≠ "" := fun h0 => hq (by rw [h0, Key.src_empty k h0])
      simp [hq, boundSource, hne]
  rw [this]
  cases k with
  | mk name required source names =>
    simp only [Prod.mk.injEq, Key.mk.injEq, true_and, and_true, Option.some.injEq]
    exact ⟨hs.symm, hn.symm⟩

theorem bindAll_prop (l : List (Key × Elem)) (h : ∀ p ∈ l, BoundKey p.1) :
    bindAll bindProp (l.map propEntryE) = some l := by
  induction l with
  | nil => rfl
  | cons a r ih =>
    obtain ⟨k, e⟩ := a
    have h1 := bindProp_entry k e (h (k, e) (List.mem_cons_self ..))
    have h2 := ih fun p hp => h p (List.mem_cons_of_mem _ hp)
    simp only [List.map_cons, bindAll]
    show (match bindProp (propEntryE (k, e)).1 (propEntryE (k, e)).2, bindAll bindProp (r.map propEntryE) with
      | some p, some ps => some (p :: ps) | _, _ => none) = _
    rw [h1, h2]

theorem bindAll_pat (l : List (Key × Elem)) (h : ∀ p ∈ l, PatKey p.1) :
    bindAll bindPat (l.map patEntryE) = some l := by
  induction l with
  | nil => rfl
  | cons a r ih =>
    obtain ⟨k, e⟩ := a
    have h1 : PatKey k := h (k, e) (List.mem_cons_self ..)
    have h2 := ih fun p hp => h p (List.mem_cons_of_mem _ hp)
    simp only [List.map_cons, bindAll, patEntryE, bindPat, h2]
    unfold PatKey at h1
    rw [← h1]

theorem bindAll_dep (l : List (Key × Elem)) (h : ∀ p ∈ l, DepOK p) :
    bindAll bindDep (l.map depEntryE) = some l := by
  induction l with
  | nil => rfl
  | cons a r ih =>
    obtain ⟨k, e⟩ := a
    have h1 : DepOK (k, e) := h (k, e) (List.mem_cons_self ..)
    have h2 := ih fun p hp => h p (List.mem_cons_of_mem _ hp)
    simp only [List.map_cons, bindAll, depEntryE, h2]
    rcases h1 with h1 | ⟨l, h1, h3⟩
    · simp only at h1
      have hn : k.names = none := by rw [h1]
      simp only [hn, bindDep]
      rw [← h1]
    · simp only at h1 h3
      have hn : k.names = some l := by rw [h1]
      simp only [hn, bindDep]
      rw [← h1, h3]


def uItems (t s : St) : St :=
  match t.kw.itemsKind with
  | .none => s
  | k => { s with kw := { s.kw with itemsKind := k }, items := t.items }

theorem step_items (t : St) (h : t.kw.itemsKind = .single → ∃ x, t.items = [x]) :
    StepOK "items" (kwVal t "items") (uItems t) := by
  intro s
  have hk : kwVal t "items" = (match t.kw.itemsKind with
    | .none => none
    | .single => t.items.head?.map PyVal.elem
    | .tuple => some (.elems t.items)) := rfl
  rw [hk]
  unfold uItems
  cases hi : t.kw.itemsKind with
  | none => simp
  | single =>
    obtain ⟨x, hx⟩ := h hi
    simp [hx, setArg]
  | tuple => simp [setArg]

def uProps (t s : St) : St :=
  if t.kw.hasProps then { s with kw := { s.kw with hasProps := true }, props := t.props } else s
def uPats (t s : St) : St :=
  if t.kw.hasPatProps then { s with kw := { s.kw with hasPatProps := true }, patProps := t.patProps } else s
def uDeps (t s : St) : St :=
  if t.kw.hasDeps then { s with kw := { s.kw with hasDeps := true }, deps := t.deps } else s

theorem step_properties (t : St) (h : ∀ p ∈ t.props, BoundKey p.1) :
    StepOK "properties" (kwVal t "properties") (uProps t) := by
  intro s
  have hk : kwVal t "properties" = if t.kw.hasProps then some (.entries (t.props.map propEntryE)) else none := rfl
  rw [hk]
  unfold uProps
  cases t.kw.hasProps with
  | false => simp
  | true => simp [setArg, bindAll_prop _ h]

theorem step_patternProperties (t : St) (h : ∀ p ∈ t.patProps, PatKey p.1) :
    StepOK "patternProperties" (kwVal t "patternProperties") (uPats t) := by
  intro s
  have hk : kwVal t "patternProperties" =
      if t.kw.hasPatProps then some (.entries (t.patProps.map patEntryE)) else none := rfl
  rw [hk]
  unfold uPats
  cases t.kw.hasPatProps with
  | false => simp
  | true => simp [setArg, bindAll_pat _ h]

theorem step_dependencies (t : St) (h : ∀ p ∈ t.deps, DepOK p) :
    StepOK "dependencies" (kwVal t "dependencies") (uDeps t) := by
  intro s
  have hk : kwVal t "dependencies" = if t.kw.hasDeps then some (.entries (t.deps.map depEntryE)) else none := rfl
  rw [hk]
  unfold uDeps
  cases t.kw.hasDeps with
  | false => simp
  | true => simp [setArg, bindAll_dep _ h]

/-! ### per class: the keyword arguments rebuild the state -/

theorem vals_string (t : St) :
    applyVals {} (kwargsValOf Gen.sigString t) = some
      { kw := { default := t.kw.default, const := t.kw.const, enum := t.kw.enum, format := t.kw.format, pattern := t.kw.pattern,
                minLength := t.kw.minLength, maxLength := t.kw.maxLength, description := t.kw.description } } := by
  simp only [kwargsValOf, Gen.sigString, List.filter_cons, List.filter_nil, beq_self_eq_true, if_true, filterMap_cons_toList,
    List.filterMap_nil]
  rw [applyVals_gen _ _ _ (step_default t), applyVals_gen _ _ _ (step_const t), applyVals_gen _ _ _ (step_enum t),
    applyVals_gen _ _ _ (step_format t), applyVals_gen _ _ _ (step_pattern t), applyVals_gen _ _ _ (step_minLength t),
    applyVals_gen _ _ _ (step_maxLength t), applyVals_gen _ _ _ (step_description t)]
  simp [applyVals, uDefault, uConst, uEnum, uFormat, uPattern, uMinLength, uMaxLength, uDescription]


theorem vals_numeric (t : St) :
    applyVals {} (kwargsValOf Gen.sigNumeric t) = some
      { kw := { default := t.kw.default, const := t.kw.const, enum := t.kw.enum, minimum := t.kw.minimum, maximum := t.kw.maximum,
                exclusiveMinimum := t.kw.exclusiveMinimum, exclusiveMaximum := t.kw.exclusiveMaximum,
                multipleOf := t.kw.multipleOf, description := t.kw.description } } := by
  simp only [kwargsValOf, Gen.sigNumeric, List.filter_cons, List.filter_nil, beq_self_eq_true, if_true, filterMap_cons_toList,
    List.filterMap_nil]
  rw [applyVals_gen _ _ _ (step_default t), applyVals_gen _ _ _ (step_const t), applyVals_gen _ _ _ (step_enum t),
    applyVals_gen _ _ _ (step_minimum t), applyVals_gen _ _ _ (step_maximum t), applyVals_gen _ _ _ (step_exclusiveMinimum t),
    applyVals_gen _ _ _ (step_exclusiveMaximum t), applyVals_gen _ _ _ (step_multipleOf t),
    applyVals_gen _ _ _ (step_description t)]
  simp [applyVals, uDefault, uConst, uEnum, uMinimum, uMaximum, uExMin, uExMax, uMultipleOf, uDescription]

theorem vals_basic (sig : List Gen.Param)
    (hsig : sig = [⟨"default", .keywordOnly, .notPassed⟩, ⟨"const", .keywordOnly, .notPassed⟩, ⟨"enum", .keywordOnly, .notPassed⟩,
      ⟨"description", .keywordOnly, .notPassed⟩]) (t : St) :
    applyVals {} (kwargsValOf sig t) = some
      { kw := { default := t.kw.default, const := t.kw.const, enum := t.kw.enum, description := t.kw.description } } := by
  subst hsig
  simp only [kwargsValOf, List.filter_cons, List.filter_nil, beq_self_eq_true, if_true, filterMap_cons_toList,
    List.filterMap_nil]
  rw [applyVals_gen _ _ _ (step_default t), applyVals_gen _ _ _ (step_const t), applyVals_gen _ _ _ (step_enum t),
    applyVals_gen _ _ _ (step_description t)]
  simp [applyVals, uDefault, uConst, uEnum, uDescription]

theorem vals_nothing (t : St) : applyVals {} (kwargsValOf Gen.sigNothing t) = some {} := rfl

/-- `Not(e, default=…)`, `AnyOf(*es, default=…)`: one keyword -/
theorem vals_default_only (sig : List Gen.Param) (p0 : Gen.Param) (h0 : p0.kind ≠ .keywordOnly)
    (hsig : sig = [p0, ⟨"default", .keywordOnly, .notPassed⟩]) (t : St) (s : St) (hs : s.kw.default = none) :
    applyVals s (kwargsValOf sig t) = some { s with kw := { s.kw with default := t.kw.default } } := by
  subst hsig
  have : (p0.kind == Gen.ParamKind.keywordOnly) = false := by simpa using h0
  simp only [kwargsValOf, List.filter_cons, List.filter_nil, this, beq_self_eq_true, if_true, filterMap_cons_toList,
    List.filterMap_nil, Bool.false_eq_true, if_false]
  rw [applyVals_gen _ _ _ (step_default t)]
  simp [applyVals, uDefault, hs]

theorem vals_array (t : St) (hA : t.addItems.isSome = true → t.kw.addItemsB = true) (s : St) :
    applyVals s (kwargsValOf Gen.sigArray t) = some
      { s with
        kw := uDescription (uUnique (uMaxItems (uMinItems (uAddItems (uEnum (uConst (uDefault s.kw t.kw.default) t.kw.const) t.kw.enum)
          t.kw.addItemsB) t.kw.minItems) t.kw.maxItems) t.kw.uniqueItems) t.kw.description
        addItems := t.addItems.or s.addItems
        contains := t.contains.or s.contains } := by
  simp only [kwargsValOf, Gen.sigArray, List.filter_cons, List.filter_nil, beq_self_eq_true, if_true, filterMap_cons_toList,
    List.filterMap_nil, show (Gen.ParamKind.positional == Gen.ParamKind.keywordOnly) = false from rfl, Bool.false_eq_true, if_false]
  rw [applyVals_gen _ _ _ (step_default t), applyVals_gen _ _ _ (step_const t), applyVals_gen _ _ _ (step_enum t),
    applyVals_gen _ _ _ (step_additionalItems t hA), applyVals_gen _ _ _ (step_minItems t), applyVals_gen _ _ _ (step_maxItems t),
    applyVals_gen _ _ _ (step_uniqueItems t), applyVals_gen _ _ _ (step_contains t), applyVals_gen _ _ _ (step_description t)]
  simp [applyVals]


/-- what a generic `Element(...)` must satisfy for its printed form to determine it -/
structure ElementOK (t : St) : Prop where
  single : t.kw.itemsKind = .single → ∃ x, t.items = [x]
  noItems : t.kw.itemsKind = .none → t.items = []
  addItems : t.addItems.isSome = true → t.kw.addItemsB = true
  addProps : t.addProps.isSome = true → t.kw.addPropsB = true
  noProps : t.kw.hasProps = false → t.props = []
  noPats : t.kw.hasPatProps = false → t.patProps = []
  noDeps : t.kw.hasDeps = false → t.deps = []
  propKeys : ∀ p ∈ t.props, BoundKey p.1
  patKeys : ∀ p ∈ t.patProps, PatKey p.1
  depKeys : ∀ p ∈ t.deps, DepOK p
  noElements : t.elements = []

theorem vals_element (t : St) (h : ElementOK t) :
    applyVals {} (kwargsValOf Gen.sigElement t) = some t := by
  simp only [kwargsValOf, Gen.sigElement, List.filter_cons, List.filter_nil, beq_self_eq_true, if_true, filterMap_cons_toList,
    List.filterMap_nil]
  rw [applyVals_gen _ _ _ (step_default t), applyVals_gen _ _ _ (step_const t), applyVals_gen _ _ _ (step_enum t),
    applyVals_gen _ _ _ (step_items t h.single),
    applyVals_gen _ _ _ (step_additionalItems t h.addItems), applyVals_gen _ _ _ (step_minItems t),
    applyVals_gen _ _ _ (step_maxItems t),
    applyVals_gen _ _ _ (step_uniqueItems t), applyVals_gen _ _ _ (step_contains t),
    applyVals_gen _ _ _ (step_minimum t), applyVals_gen _ _ _ (step_maximum t), applyVals_gen _ _ _ (step_exclusiveMinimum t),
    applyVals_gen _ _ _ (step_exclusiveMaximum t), applyVals_gen _ _ _ (step_multipleOf t),
    applyVals_gen _ _ _ (step_format t), applyVals_gen _ _ _ (step_pattern t), applyVals_gen _ _ _ (step_minLength t),
    applyVals_gen _ _ _ (step_maxLength t), applyVals_gen _ _ _ (step_required t),
    applyVals_gen _ _ _ (step_properties t h.propKeys), applyVals_gen _ _ _ (step_patternProperties t h.patKeys),
    applyVals_gen _ _ _ (step_additionalProperties t h.addProps),
    applyVals_gen _ _ _ (step_minProperties t), applyVals_gen _ _ _ (step_maxProperties t),
    applyVals_gen _ _ _ (step_propertyNames t), applyVals_gen _ _ _ (step_dependencies t h.depKeys),
    applyVals_gen _ _ _ (step_description t)]
  obtain ⟨hs, hn, _, _, hp, hpt, hd, _, _, _, he⟩ := h
  obtain ⟨kw, items, addI, cont, props, pats, addP, pn, deps, els⟩ := t
  obtain ⟨d, c, e, ik, aib, mni, mxi, uq, mn, mx, xmn, xmx, mo, f, p, mnl, mxl, req, hasP, hasPt, apb, mnp, mxp, hasD, ds⟩ := kw
  simp only at hs hn hp hpt hd he
  subst he
  simp only [applyVals, Option.some.injEq]
  cases hasP <;> cases hasPt <;> cases hasD <;> cases ik <;>
    simp_all [uItems, uProps, uPats, uDeps, uDefault, uConst, uEnum, uAddItems, uMinItems, uMaxItems, uUnique, uMinimum, uMaximum,
      uExMin, uExMax, uMultipleOf, uFormat, uPattern, uMinLength, uMaxLength, uRequired, uAddProps, uMinProps,
      uMaxProps, uDescription]


structure ArrayOK (t : St) : Prop where
  single : t.kw.itemsKind = .single → ∃ x, t.items = [x]
  noItems : t.kw.itemsKind = .none → t.items = []
  addItems : t.addItems.isSome = true → t.kw.addItemsB = true
  shape : t = { kw := { default := t.kw.default, const := t.kw.const, enum := t.kw.enum, itemsKind := t.kw.itemsKind,
                        addItemsB := t.kw.addItemsB, minItems := t.kw.minItems, maxItems := t.kw.maxItems,
                        uniqueItems := t.kw.uniqueItems, description := t.kw.description },
                items := t.items, addItems := t.addItems, contains := t.contains }

/-- the element holds nothing but what its class's constructor takes, in the one form the constructor produces -/
def NodeOK (c : Cls) (t : St) : Prop :=
  match c with
  | .element => ElementOK t
  | .string => t = { kw := { default := t.kw.default, const := t.kw.const, enum := t.kw.enum, format := t.kw.format,
                             pattern := t.kw.pattern, minLength := t.kw.minLength, maxLength := t.kw.maxLength,
                             description := t.kw.description } }
  | .integer => t = { kw := { default := t.kw.default, const := t.kw.const, enum := t.kw.enum, minimum := t.kw.minimum,
                              maximum := t.kw.maximum, exclusiveMinimum := t.kw.exclusiveMinimum,
                              exclusiveMaximum := t.kw.exclusiveMaximum, multipleOf := t.kw.multipleOf,
                              description := t.kw.description } }
  | .number => t = { kw := { default := t.kw.default, const := t.kw.const, enum := t.kw.enum, minimum := t.kw.minimum,
                             maximum := t.kw.maximum, exclusiveMinimum := t.kw.exclusiveMinimum,
                             exclusiveMaximum := t.kw.exclusiveMaximum, multipleOf := t.kw.multipleOf,
                             description := t.kw.description } }
  | .boolean => t = { kw := { default := t.kw.default, const := t.kw.const, enum := t.kw.enum, description := t.kw.description } }
  | .null => t = { kw := { default := t.kw.default, const := t.kw.const, enum := t.kw.enum, description := t.kw.description } }
  | .nothing => t = {}
  | .not => (∃ e, t.elements = [e]) ∧ t = { kw := { default := t.kw.default }, elements := t.elements }
  | .anyOf => t = { kw := { default := t.kw.default }, elements := t.elements }
  | .oneOf => t = { kw := { default := t.kw.default }, elements := t.elements }
  | .allOf => t = { kw := { default := t.kw.default }, elements := t.elements }
  | .array => ArrayOK t
  | .object _ => True

theorem pyConstruct_ok (f : String) (c : Cls) (hf : f ≠ "Property") (hcls : classOf f = some c)
    (args : List PyVal) (s0 t : St) (hpos : positional c args = some s0)
    (happly : applyVals s0 (kwargsValOf (sigOf c) t) = some t) :
    pyConstruct f args (kwargsValOf (sigOf c) t) = some (.elem (t.toElem c)) := by
  unfold pyConstruct
  simp only [hf, if_false, hcls, accepts_kwargsValOf, if_true, hpos, happly, Option.map_some]

theorem evalV_call (env) (f : String) (args : List PyExpr) (kwargs : List (String × PyExpr)) (a : List PyVal)
    (k : List (String × PyVal)) (ha : evalVs env args = some a) (hk : evalKVs env kwargs = some k) :
    evalV env (.call f args kwargs) = pyConstruct f a k := by
  rw [evalV, ha, hk]

theorem positional_array (t : St) (hs : t.kw.itemsKind = .single → ∃ x, t.items = [x]) :
    positional .array [(kwVal t "items").getD .notPassed] = some (uItems t {}) := by
  have h := step_items t hs {}
  show setArg {} "items" ((kwVal t "items").getD .notPassed) = _
  cases hk : kwVal t "items" with
  | none => rw [(h.1 hk)]; rfl
  | some v => exact h.2 v hk

theorem evalVs_items_arg (env) (rk : ReprKids) (t : St) (hk : EvalKids env rk t) :
    evalVs env [(kwExpr t.kw rk "items").getD (.name "NotPassed")] = some [(kwVal t "items").getD .notPassed] := by
  have h := evalO_kwExpr env rk t hk "items"
  cases hx : kwExpr t.kw rk "items" with
  | none =>
    rw [hx] at h
    simp only [evalO, Option.some.injEq] at h
    rw [← h]
    simp [evalVs, evalV]
  | some x =>
    rw [hx] at h
    simp only [evalO] at h
    cases hv : evalV env x with
    | none => simp [hv] at h
    | some v =>
      simp only [hv, Option.map_some, Option.some.injEq] at h
      rw [← h]
      simp [evalVs, hv]

theorem eval_core (env) (c : Cls) (t : St) (rk : ReprKids) (hc : ∀ n, c ≠ .object n) (hk : EvalKids env rk t)
    (ok : NodeOK c t) :
    evalV env (reprCore c t.kw rk) = some (.elem (t.toElem c)) := by
  have hkw := fun sig => evalKVs_kwargsOf env rk t hk sig
  cases c with
  | object n => exact absurd rfl (hc n)
  | element =>
    rw [reprCore, evalV_call env _ _ _ [] _ rfl (hkw _)]
    exact pyConstruct_ok "Element" .element (by decide) rfl [] {} t rfl (vals_element t ok)
  | string =>
    rw [reprCore, evalV_call env _ _ _ [] _ rfl (hkw _)]
    refine pyConstruct_ok "String" .string (by decide) rfl [] {} t rfl ?_
    unfold NodeOK at ok
    rw [sigOf, vals_string, ← ok]
  | integer =>
    rw [reprCore, evalV_call env _ _ _ [] _ rfl (hkw _)]
    refine pyConstruct_ok "Integer" .integer (by decide) rfl [] {} t rfl ?_
    unfold NodeOK at ok
    rw [sigOf, vals_numeric, ← ok]
  | number =>
    rw [reprCore, evalV_call env _ _ _ [] _ rfl (hkw _)]
    refine pyConstruct_ok "Number" .number (by decide) rfl [] {} t rfl ?_
    unfold NodeOK at ok
    rw [sigOf, vals_numeric, ← ok]
  | boolean =>
    rw [reprCore, evalV_call env _ _ _ [] _ rfl (hkw _)]
    refine pyConstruct_ok "Boolean" .boolean (by decide) rfl [] {} t rfl ?_
    unfold NodeOK at ok
    rw [sigOf, vals_basic Gen.sigBoolean rfl t, ← ok]
  | null =>
    rw [reprCore, evalV_call env _ _ _ [] _ rfl (hkw _)]
    refine pyConstruct_ok "Null" .null (by decide) rfl [] {} t rfl ?_
    unfold NodeOK at ok
    rw [sigOf, vals_basic Gen.sigNull rfl t, ← ok]
  | nothing =>
    rw [reprCore, evalV_call env _ _ _ [] _ rfl (hkw _)]
    refine pyConstruct_ok "Nothing" .nothing (by decide) rfl [] {} t rfl ?_
    unfold NodeOK at ok
    rw [sigOf, vals_nothing, ← ok]
  | not =>
    obtain ⟨⟨e, he⟩, ok⟩ := ok
    have hel := hk.elements
    rw [he] at hel
    have hargs : evalVs env (rk.elements.take 1) = some [PyVal.elem e] := by
      cases hr : rk.elements with
      | nil => rw [hr] at hel; simp [evalVs] at hel
      | cons x r =>
        rw [hr, evalVs] at hel
        cases hx : evalV env x with
        | none => simp [hx] at hel
        | some v =>
          cases hr' : evalVs env r with
          | none => simp [hx, hr'] at hel
          | some vs =>
            simp only [hx, hr', Option.some.injEq, List.map_cons, List.map_nil, List.cons.injEq] at hel
            simp [evalVs, hx, hel.1]
    rw [reprCore, evalV_call env _ _ _ _ _ hargs (hkw _)]
    refine pyConstruct_ok "Not" .not (by decide) rfl _ { elements := [e] } t rfl ?_
    rw [sigOf, vals_default_only Gen.sigNot ⟨"element", .positional, .required⟩ (by decide) rfl t _ rfl]
    rw [ok, he]
  | anyOf =>
    rw [reprCore, evalV_call env _ _ _ _ _ hk.elements (hkw _)]
    refine pyConstruct_ok "AnyOf" .anyOf (by decide) rfl _ { elements := t.elements } t (by simp [positional, allElems_map]) ?_
    rw [sigOf, vals_default_only Gen.sigComposition ⟨"elements", .varPositional, .required⟩ (by decide) rfl t _ rfl]
    have ok : t = _ := ok
    exact congrArg some ok.symm
  | oneOf =>
    rw [reprCore, evalV_call env _ _ _ _ _ hk.elements (hkw _)]
    refine pyConstruct_ok "OneOf" .oneOf (by decide) rfl _ { elements := t.elements } t (by simp [positional, allElems_map]) ?_
    rw [sigOf, vals_default_only Gen.sigComposition ⟨"elements", .varPositional, .required⟩ (by decide) rfl t _ rfl]
    have ok : t = _ := ok
    exact congrArg some ok.symm
  | allOf =>
    rw [reprCore, evalV_call env _ _ _ _ _ hk.elements (hkw _)]
    refine pyConstruct_ok "AllOf" .allOf (by decide) rfl _ { elements := t.elements } t (by simp [positional, allElems_map]) ?_
    rw [sigOf, vals_default_only Gen.sigComposition ⟨"elements", .varPositional, .required⟩ (by decide) rfl t _ rfl]
    have ok : t = _ := ok
    exact congrArg some ok.symm
  | array =>
    have ok : ArrayOK t := ok
    rw [reprCore, evalV_call env _ _ _ _ _ (evalVs_items_arg env rk t hk) (hkw _)]
    refine pyConstruct_ok "Array" .array (by decide) rfl _ _ t (positional_array t ok.single) ?_
    rw [sigOf, vals_array t ok.addItems]
    obtain ⟨hs, hn, _, hshape⟩ := ok
    obtain ⟨kw, items, addI, cont, props, pats, addP, pn, deps, els⟩ := t
    obtain ⟨d, c, e, ik, aib, mni, mxi, uq, mn, mx, xmn, xmx, mo, f, p, mnl, mxl, req, hasP, hasPt, apb, mnp, mxp, hasD, ds⟩ := kw
    simp only [St.mk.injEq, Kw.mk.injEq] at hshape
    simp only at hs hn
    cases ik <;>
      simp_all [uItems, uDefault, uConst, uEnum, uAddItems, uMinItems, uMaxItems, uUnique, uDescription]


/-! ### well-formed trees -/
mutual
def WF (env : String → Option Elem) : Elem → Prop
  | .mk c kw items addI cont props pats addP pn deps els =>
    (∀ n, c = .object n → n ≠ "NotPassed" ∧ env n = some (.mk c kw items addI cont props pats addP pn deps els)) ∧
    ((∀ n, c ≠ .object n) → NodeOK c ⟨kw, items, addI, cont, props, pats, addP, pn, deps, els⟩) ∧
    WFL env items ∧ WFO env addI ∧ WFO env cont ∧ WFK env props ∧ WFK env pats ∧ WFO env addP ∧ WFO env pn ∧
    WFD env deps ∧ WFL env els
def WFO (env : String → Option Elem) : Option Elem → Prop
  | none => True
  | some e => WF env e
def WFL (env : String → Option Elem) : List Elem → Prop
  | [] => True
  | e :: r => WF env e ∧ WFL env r
def WFK (env : String → Option Elem) : List (Key × Elem) → Prop
  | [] => True
  | (_, e) :: r => WF env e ∧ WFK env r
/-- `dependencies`: only the element-valued entries hold an element -/
def WFD (env : String → Option Elem) : List (Key × Elem) → Prop
  | [] => True
  | (k, e) :: r => (k.names.isSome = true ∨ WF env e) ∧ WFD env r
end

theorem evalV_propExpr (env) (k : Key) (x : PyExpr) (e : Elem) (h : evalV env x = some (.elem e)) :
    evalV env (propExpr k x) = some (propEntry (k, e)).2 := by
  unfold propExpr
  have ha : evalVs env [x] = some [PyVal.elem e] := by simp [evalVs, h]
  by_cases hr : k.required = true <;> by_cases hs : (k.src == k.name) = true
  all_goals
    rw [evalV_call env _ _ _ _ _ ha (by simp [hr, hs, evalKVs, evalV]; rfl)]
    simp [pyConstruct, propOf, propEntry, hr, hs]

mutual
theorem eval_repr (env) : ∀ (e : Elem), WF env e → evalV env (reprExpr e) = some (.elem e)
  | .mk c kw items addI cont props pats addP pn deps els, h => by
    rw [WF] at h
    obtain ⟨hobj, hnode, hi, ha, hc, hp, hpt, hap, hpn, hd, he⟩ := h
    rw [reprExpr]
    by_cases hc' : ∃ n, c = .object n
    · obtain ⟨n, rfl⟩ := hc'
      obtain ⟨hn, henv⟩ := hobj n rfl
      simp [reprCore, evalV, hn, henv]
    · have hc'' : ∀ n, c ≠ .object n := fun n hn => hc' ⟨n, hn⟩
      have hk : EvalKids env
          { items := reprList items, addItems := reprOpt addI, contains := reprOpt cont, props := reprKeyed props,
            patProps := reprKeyed pats, addProps := reprOpt addP, propNames := reprOpt pn, deps := reprKeyed deps,
            elements := reprList els }
          ⟨kw, items, addI, cont, props, pats, addP, pn, deps, els⟩ :=
        ⟨eval_reprList env items hi, eval_reprOpt env addI ha, eval_reprOpt env cont hc, eval_reprProps env props hp,
         eval_reprPats env pats hpt, eval_reprOpt env addP hap, eval_reprOpt env pn hpn, eval_reprDeps env deps hd,
         eval_reprList env els he⟩
      exact eval_core env c ⟨kw, items, addI, cont, props, pats, addP, pn, deps, els⟩ _ hc'' hk (hnode hc'')
theorem eval_reprOpt (env) : ∀ (o : Option Elem), WFO env o → evalO env (reprOpt o) = some (o.map PyVal.elem)
  | none, _ => rfl
  | some e, h => by
    rw [WFO] at h
    simp [reprOpt, evalO, eval_repr env e h]
theorem eval_reprList (env) : ∀ (l : List Elem), WFL env l → evalVs env (reprList l) = some (l.map PyVal.elem)
  | [], _ => rfl
  | e :: r, h => by
    rw [WFL] at h
    simp [reprList, evalVs, eval_repr env e h.1, eval_reprList env r h.2]
theorem eval_reprProps (env) : ∀ (l : List (Key × Elem)), WFK env l →
    evalKVs env ((reprKeyed l).map fun p => (p.1.name, propExpr p.1 p.2)) = some (l.map propEntry)
  | [], _ => rfl
  | (k, e) :: r, h => by
    rw [WFK] at h
    simp only [reprKeyed, List.map_cons, evalKVs, evalV_propExpr env k _ e (eval_repr env e h.1), eval_reprProps env r h.2]
    rfl
theorem eval_reprPats (env) : ∀ (l : List (Key × Elem)), WFK env l →
    evalKVs env ((reprKeyed l).map fun p => (p.1.name, p.2)) = some (l.map patEntry)
  | [], _ => rfl
  | (k, e) :: r, h => by
    rw [WFK] at h
    simp only [reprKeyed, List.map_cons, evalKVs, eval_repr env e h.1, eval_reprPats env r h.2]
    rfl
theorem eval_reprDeps (env) : ∀ (l : List (Key × Elem)), WFD env l →
    evalKVs env ((reprKeyed l).map depExpr) = some (l.map depEntry)
  | [], _ => rfl
  | (k, e) :: r, h => by
    rw [WFD] at h
    have ih := eval_reprDeps env r h.2
    simp only [reprKeyed, List.map_cons, evalKVs, depExpr, depEntry]
    cases hk : k.names with
    | none =>
      have he : evalV env (reprExpr e) = some (.elem e) := by
        rcases h.1 with h1 | h1
        · rw [hk] at h1; cases h1
        · exact eval_repr env e h1
      simp only [he, ih]
    | some l => simp only [evalV, ih]
end

end Statham.PyEval
