/-
  `_parse_object`: the class built for `"type": "object"` refines the Draft-6 reading with
  the documented deviation (a required property with a default may be omitted).
-/
import StathamModel.Lemmas.Assemble1
namespace Statham

theorem mkObject_eq (cx : PCtx) (k : SKw) (kw : Kw) (p : Parts) :
    mkObject cx k kw p =
      .mk (.object (className k))
        { default := kw.default, const := kw.const, enum := kw.enum, hasProps := true,
          hasPatProps := kw.hasPatProps, addPropsB := kw.addPropsB, minProperties := kw.minProperties,
          maxProperties := kw.maxProperties, hasDeps := kw.hasDeps, description := kw.description }
        [] none none (withSynthetic cx (k.required.getD []) p.props) p.patProps p.addProps p.propNames p.deps [] := by
  simp [mkObject, mkElem, filterKw, keep, objectAllowed, Gen.objectClassArgs]

/-- the synthetic required properties, as closures -/
def synthV (env : Env) (cx : PCtx) (k : SKw) (kids : Kids) : List VProp :=
  (synthNames (k.required.getD []) kids.props).map fun n => (synthKey cx n, none, Elem.trivial.acc env)

theorem accProps_class (env : Env) (cx : PCtx) (k : SKw) (kids : Kids) (σ : D6.SSub) (N : NodeOK cx k kids σ) :
    accProps env (withSynthetic cx (k.required.getD []) (buildProps cx (k.required.getD []) kids.props)) =
      declared env cx k kids ++ synthV env cx k kids := by
  rw [buildProps_map cx _ _ N.propNames (inj_props N), withSynthetic_eq cx _ _ N.req N.inj, accProps_append,
    accProps_map]
  congr 1
  unfold synthV
  generalize synthNames (k.required.getD []) kids.props = l
  induction l with
  | nil => rw [List.map_nil, accProps]; rfl
  | cons n l ih => rw [List.map_cons, accProps, ih]; rfl

theorem mem_synthNames {req : List String} {ps : List (String × Elem)} {n : String} :
    n ∈ synthNames req ps ↔ n ∈ req ∧ n ∉ ps.map (·.1) := by
  unfold synthNames
  simp

theorem distinct_append {l₁ l₂ : List String} (h1 : distinct l₁ = true) (h2 : distinct l₂ = true)
    (hd : ∀ x ∈ l₁, x ∉ l₂) : distinct (l₁ ++ l₂) = true := by
  induction l₁ with
  | nil => simpa using h2
  | cons a l ih =>
    simp only [distinct_cons] at h1
    simp only [List.cons_append, distinct_cons, List.mem_append, not_or]
    exact ⟨⟨h1.1, hd a (List.mem_cons_self ..)⟩, ih h1.2 fun x hx => hd x (List.mem_cons_of_mem _ hx)⟩

theorem srcs_synthV (env : Env) (cx : PCtx) (k : SKw) (kids : Kids)
    (hne : ∀ n ∈ k.required.getD [], n ≠ "") :
    srcs (synthV env cx k kids) = synthNames (k.required.getD []) kids.props := by
  unfold srcs synthV
  rw [List.map_map]
  conv => rhs; rw [← List.map_id (synthNames _ _)]
  apply List.map_congr_left
  intro n hn
  exact src_synthKey cx n (hne n (mem_synthNames.mp hn).1)

theorem setup_class {env : Env} {cx : PCtx} {k : SKw} {kids : Kids} {σ : D6.SSub}
    (K : KidsRel env kids σ) (N : NodeOK cx k kids σ) (hobj : typeHasObject k = true) (kw : Kw)
    (sub : VSub)
    (hprops : sub.props = accProps env (withSynthetic cx (k.required.getD []) (buildProps cx (k.required.getD []) kids.props)))
    (hpats : sub.patProps = accKeyed env (kids.patProps.map fun kv => ({ name := kv.1 }, kv.2)))
    (haddp : sub.addProps = accOpt env kids.addProps.1)
    (hb : kw.addPropsB = kids.addProps.2) :
    ObjSetup env kw sub σ (declared env cx k kids) (synthV env cx k kids) where
  split := by rw [hprops]; exact accProps_class env cx k kids σ N
  decl := props_rel K.props N.propsNonempty'
  dist := by
    have hr : ∀ n ∈ k.required.getD [], n ≠ "" := fun n hn => N.nonempty n (List.mem_append_right _ hn)
    unfold srcs
    rw [List.map_append]
    apply distinct_append
    · have := srcs_declared env cx k kids N.propsNonempty; unfold srcs at this; rw [this]; exact N.propNames
    · have := srcs_synthV env cx k kids hr; unfold srcs at this; rw [this]
      exact distinct_filter _ N.req
    · intro x hx hx2
      have h1 := srcs_declared env cx k kids N.propsNonempty; unfold srcs at h1; rw [h1] at hx
      have h2 := srcs_synthV env cx k kids hr; unfold srcs at h2; rw [h2] at hx2
      exact (mem_synthNames.mp hx2).2 hx
  synth := by
    intro p hp a
    obtain ⟨n, _, rfl⟩ := List.mem_map.mp hp
    exact acc_trivial env a
  perm := by
    intro hne x
    rcases N.synth hobj with h | h
    · have hK := K.addProps
      rw [h] at hK
      generalize σ.addProps = sa at hK
      cases hK with
      | absent => rfl
      | lit => rfl
    · exfalso
      apply hne
      unfold synthV
      have : synthNames (k.required.getD []) kids.props = [] := by
        unfold synthNames
        rw [List.filter_eq_nil_iff]
        intro n hn
        simpa using h n hn
      rw [this]; rfl
  pats := by
    rw [hpats, accKeyed_map env (fun n => ({ name := n } : Key))]
    exact pats_rel K.patProps
  addl := by rw [haddp]; exact addlP_of_kids K _ hb

/-- the waiver: a declared property's schema declares a default -/
theorem spec_waived_iff {env : Env} {kids : Kids} {σ : D6.SSub} (K : KidsRel env kids σ)
    (hd : distinct (kids.props.map (·.1)) = true) (n : String) :
    (σ.props.any fun p => p.1 == n && p.2.1) = true ↔
      ∃ e, (n, e) ∈ kids.props ∧ e.kw.default.isSome = true := by
  rw [List.any_eq_true]
  constructor
  · rintro ⟨p, hp, hpn⟩
    simp only [Bool.and_eq_true, beq_iff_eq] at hpn
    obtain ⟨kv, hkv, hrel⟩ := K.props.exists_left hp
    refine ⟨kv.2, ?_, ?_⟩
    · have : kv.1 = n := hrel.1.trans hpn.1
      rw [← this]; exact hkv
    · rw [← hrel.2.2]; exact hpn.2
  · rintro ⟨e, he, hdef⟩
    obtain ⟨p, hp, hrel⟩ := K.props.exists_right he
    refine ⟨p, hp, ?_⟩
    simp only [Bool.and_eq_true, beq_iff_eq]
    exact ⟨hrel.1.symm, by rw [hrel.2.2]; exact hdef⟩

theorem mem_unique {ps : List (String × Elem)} (hd : distinct (ps.map (·.1)) = true) {n : String} {e e' : Elem}
    (h1 : (n, e) ∈ ps) (h2 : (n, e') ∈ ps) : e = e' := by
  induction ps with
  | nil => cases h1
  | cons a l ih =>
    simp only [List.map_cons, distinct_cons] at hd
    rcases List.mem_cons.mp h1 with e1 | e1 <;> rcases List.mem_cons.mp h2 with e2 | e2
    · rw [← e1] at e2; exact (Prod.mk.inj e2).2.symm ▸ rfl
    · exfalso; apply hd.1; rw [← e1]; exact List.mem_map.mpr ⟨(n, e'), e2, rfl⟩
    · exfalso; apply hd.1; rw [← e2]; exact List.mem_map.mpr ⟨(n, e), e1, rfl⟩
    · exact ih hd.2 e1 e2

theorem required_lenient {env : Env} {cx : PCtx} {k : SKw} {kids : Kids} {σ : D6.SSub}
    (K : KidsRel env kids σ) (N : NodeOK cx k kids σ) (kw : Kw) (hreq : kw.required = none)
    (kvs : List (String × JVal)) :
    ((requiredNames kw ((declared env cx k kids ++ synthV env cx k kids).map fun q => (q.1, q.2.1))).all
        fun n => (JVal.keys kvs).contains n) = D6.requiredOk true k σ kvs := by
  unfold requiredNames D6.requiredOk
  rw [hreq]
  simp only [Option.getD_none, List.nil_append, Bool.true_and]
  apply Bool.eq_iff_iff.mpr
  rw [List.all_eq_true, List.all_eq_true]
  constructor
  · intro hm n hn
    by_cases hdecl : n ∈ kids.props.map (·.1)
    · obtain ⟨kv, hkv, rfl⟩ := List.mem_map.mp hdecl
      cases hdef : kv.2.kw.default.isSome with
      | true =>
        have := (spec_waived_iff K N.propNames kv.1).mpr ⟨kv.2, hkv, hdef⟩
        rw [Bool.or_eq_true]; exact Or.inr this
      | false =>
        have hmem : kv.1 ∈ (((declared env cx k kids ++ synthV env cx k kids).map fun q => (q.1, q.2.1)).filter
            fun p => p.1.required && p.2.isNone).map fun p => p.1.src := by
          refine List.mem_map.mpr ⟨(mkKey cx (k.required.getD []) kv.1, kv.2.kw.default), ?_,
            src_mkKey cx _ kv.1 (N.propsNonempty' kv hkv)⟩
          refine List.mem_filter.mpr ⟨?_, ?_⟩
          · refine List.mem_map.mpr ⟨(mkKey cx (k.required.getD []) kv.1, kv.2.kw.default, kv.2.acc env), ?_, rfl⟩
            exact List.mem_append_left _ (List.mem_map.mpr ⟨kv, hkv, rfl⟩)
          · have h1 : kv.2.kw.default.isNone = true := by
              cases h : kv.2.kw.default <;> simp_all
            simp [mkKey, h1, hn]
        rw [Bool.or_eq_true]; exact Or.inl (hm kv.1 hmem)
    · have hs : n ∈ synthNames (k.required.getD []) kids.props := mem_synthNames.mpr ⟨hn, hdecl⟩
      have hmem : n ∈ (((declared env cx k kids ++ synthV env cx k kids).map fun q => (q.1, q.2.1)).filter
          fun p => p.1.required && p.2.isNone).map fun p => p.1.src := by
        refine List.mem_map.mpr ⟨(synthKey cx n, none), ?_,
          src_synthKey cx n (N.nonempty n (List.mem_append_right _ hn))⟩
        refine List.mem_filter.mpr ⟨?_, by simp [synthKey]⟩
        refine List.mem_map.mpr ⟨(synthKey cx n, none, Elem.trivial.acc env), ?_, rfl⟩
        exact List.mem_append_right _ (List.mem_map.mpr ⟨n, hs, rfl⟩)
      rw [Bool.or_eq_true]; exact Or.inl (hm n hmem)
  · intro hs m hm
    obtain ⟨q, hq, rfl⟩ := List.mem_map.mp hm
    obtain ⟨hq1, hq2⟩ := List.mem_filter.mp hq
    simp only [Bool.and_eq_true] at hq2
    obtain ⟨q0, hq0, rfl⟩ := List.mem_map.mp hq1
    rcases List.mem_append.mp hq0 with hd | hsy
    · obtain ⟨kv, hkv, rfl⟩ := List.mem_map.mp hd
      simp only [mkKey, List.contains_eq_mem, decide_eq_true_eq] at hq2
      have hspec := hs kv.1 hq2.1
      simp only [Bool.or_eq_true] at hspec
      rcases hspec with h | h
      · show (JVal.keys kvs).contains (mkKey cx (k.required.getD []) kv.1).src = true
        rw [src_mkKey cx _ kv.1 (N.propsNonempty' kv hkv)]
        exact h
      · exfalso
        obtain ⟨e, he, hdef⟩ := (spec_waived_iff K N.propNames kv.1).mp h
        have : kv.2 = e := mem_unique N.propNames (by exact hkv) he
        rw [← this] at hdef
        have hn := hq2.2
        cases hh : kv.2.kw.default <;> simp_all
    · obtain ⟨n, hn, rfl⟩ := List.mem_map.mp hsy
      have hn' := mem_synthNames.mp hn
      have hspec := hs n hn'.1
      simp only [Bool.or_eq_true] at hspec
      rcases hspec with h | h
      · show (JVal.keys kvs).contains (synthKey cx n).src = true
        rw [src_synthKey cx n (N.nonempty n (List.mem_append_right _ hn'.1))]
        exact h
      · exfalso
        obtain ⟨e, he, _⟩ := (spec_waived_iff K N.propNames n).mp h
        exact hn'.2 (List.mem_map.mpr ⟨(n, e), he, rfl⟩)

theorem createV_type_fail (env : Env) (c : Cls) (kw : Kw) (sub : VSub) (v : JVal) (h : typeOk c v = false) :
    createV env c kw sub v ≠ .pass := by
  unfold createV validators
  rw [h]
  intro hp
  have := (V.and_eq_pass.mp hp).1
  have := (V.and_eq_pass.mp this).1
  cases this

theorem RC_class {env : Env} {cx : PCtx} {k : SKw} {kids : Kids} {σ : D6.SSub} (d : Option JVal)
    (K : KidsRel env kids σ) (N : NodeOK cx k kids σ) (hobj : typeHasObject k = true) :
    RC ((mkObject cx k (baseKw k (partsOf cx k kids) d) (partsOf cx k kids)).acc env)
      (fun v => D6.typeMatch "object" v && restOk env true k σ v) := by
  refine ⟨fun v hv => ?_, acc_notPassed_ne_reject env _⟩
  rw [mkObject_eq, Elem.acc]
  simp only [accCore]
  cases v with
  | obj kvs =>
    have htm : D6.typeMatch "object" (.obj kvs) = true := by simp [D6.typeMatch]
    rw [htm, Bool.true_and]
    unfold createV validators restOk
    simp only [typeOk, V.ofBool_true, V.and_pass_left, constructV, additionalPropsCheck, V.and_pass_right]
    have hlit := literalChecks_spec k (partsOf cx k kids) d (.obj kvs) N.lit
    have hlit' : literalChecks
        { default := (baseKw k (partsOf cx k kids) d).default, const := (baseKw k (partsOf cx k kids) d).const,
          enum := (baseKw k (partsOf cx k kids) d).enum, hasProps := true,
          hasPatProps := (baseKw k (partsOf cx k kids) d).hasPatProps,
          addPropsB := (baseKw k (partsOf cx k kids) d).addPropsB,
          minProperties := (baseKw k (partsOf cx k kids) d).minProperties,
          maxProperties := (baseKw k (partsOf cx k kids) d).maxProperties,
          hasDeps := (baseKw k (partsOf cx k kids) d).hasDeps,
          description := (baseKw k (partsOf cx k kids) d).description } (.obj kvs) =
        V.ofBool (D6.literalOk k (.obj kvs)) := hlit
    rw [hlit']
    have S := setup_class K N hobj
      { default := (baseKw k (partsOf cx k kids) d).default, const := (baseKw k (partsOf cx k kids) d).const,
        enum := (baseKw k (partsOf cx k kids) d).enum, hasProps := true,
        hasPatProps := (baseKw k (partsOf cx k kids) d).hasPatProps,
        addPropsB := (baseKw k (partsOf cx k kids) d).addPropsB,
        minProperties := (baseKw k (partsOf cx k kids) d).minProperties,
        maxProperties := (baseKw k (partsOf cx k kids) d).maxProperties,
        hasDeps := (baseKw k (partsOf cx k kids) d).hasDeps,
        description := (baseKw k (partsOf cx k kids) d).description }
      { items := accList env [], addItems := accAddl env none, contains := accOpt env none,
        props := accProps env (withSynthetic cx (k.required.getD []) (partsOf cx k kids).props),
        patProps := accKeyed env (partsOf cx k kids).patProps,
        addProps := accOpt env (partsOf cx k kids).addProps,
        propNames := accOpt env (partsOf cx k kids).propNames,
        deps := accKeyed env (partsOf cx k kids).deps, elements := accList env [] }
      rfl rfl rfl rfl
    have hO := R_object (k := k) (fun _ => true) kvs S hv rfl rfl
      (by rw [S.split]; exact required_lenient K N _ rfl kvs)
      (accOpt_rel K.propNames) (orderDeps_acc env kids.deps) (deps_rel K.deps)
    have := R.and (R.ofBool (D6.literalOk k (.obj kvs))) hO
    refine this.congr2 ?_ ?_ <;> ac_rfl
  | null => exact R_of_ne_pass (createV_type_fail _ _ _ _ _ rfl)
  | bool b => exact R_of_ne_pass (createV_type_fail _ _ _ _ _ rfl)
  | num n => exact R_of_ne_pass (createV_type_fail _ _ _ _ _ rfl)
  | str s => exact R_of_ne_pass (createV_type_fail _ _ _ _ _ rfl)
  | arr xs => exact R_of_ne_pass (createV_type_fail _ _ _ _ _ rfl)

end Statham
