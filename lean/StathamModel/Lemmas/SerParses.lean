/-
  The serialized document always parses: `parseErr (toSchema e) = none` for every tree whose object classes have non-empty
  names (the serializer writes no unsupported keyword, only the seven type names, and a title for every class).
-/
import StathamModel.Lemmas.SerOk
namespace Statham

def clsNamed : Cls → Bool
  | .object n => n != ""
  | _ => true

mutual
/-- every object class in the tree has a non-empty name -/
def namedOK : Elem → Bool
  | .mk c _ items addI cont props pats addP pn deps els =>
    clsNamed c &&
    namedL items && namedO addI && namedO cont && namedK props && namedK pats && namedO addP && namedO pn && namedK deps && namedL els
def namedO : Option Elem → Bool
  | none => true
  | some e => namedOK e
def namedL : List Elem → Bool
  | [] => true
  | e :: es => namedOK e && namedL es
def namedK : List (Key × Elem) → Bool
  | [] => true
  | (_, e) :: r => namedOK e && namedK r
end

theorem ownErr_nodeSKw (c : Cls) (kw : Kw) (props : List (Key × Elem)) (hn : clsNamed c = true) :
    ownErr (nodeSKw c kw props) = none := by
  unfold ownErr
  have ht : (nodeSKw c kw props).type = typeSpecOf c := rfl
  rw [ht]
  cases c with
  | object n =>
    have : typeSpecOf (Cls.object n) = TypeSpec.single "object" := by
      simp [typeSpecOf, typeNameOf, Gen.jsonTypeMapping, List.lookup]
    rw [this]
    simp only [typeNameErr, beq_self_eq_true, if_true, nodeSKw, isObjectClass, objName, Option.orElse, Option.getD_some]
    have hn' : n ≠ "" := by simpa [clsNamed] using hn
    simp [hn']
  | _ =>
    simp [typeSpecOf, typeNameOf, Gen.jsonTypeMapping, List.lookup, typeNameErr, typedLeaf, Gen.parserTypeMapping]

theorem errOpt_addl (o : Option Schema) (b : Bool) (h : errOpt o = none) : errOpt (addlSchema o b) = none := by
  cases o with
  | none =>
    cases b
    · simp only [addlSchema, Bool.false_eq_true, if_false]
      rw [errOpt, parseErr]
    · simp only [addlSchema, if_true]
      rw [errOpt]
  | some s => exact h

mutual
/-- **The serialized document parses.** -/
theorem toSchema_parses : ∀ (e : Elem), namedOK e = true → parseErr (toSchema e) = none
  | .mk c kw items addI cont props pats addP pn deps els, h => by
    rw [namedOK] at h
    simp only [Bool.and_eq_true] at h
    obtain ⟨⟨⟨⟨⟨⟨⟨⟨⟨h0, h1⟩, h2⟩, h3⟩, h4⟩, h5⟩, h6⟩, h7⟩, h8⟩, h9⟩ := h
    by_cases hc : c = .nothing
    · subst hc
      rw [toSchema]
      simp only [beq_self_eq_true, if_true]
      rw [parseErr]
    · rw [toSchema_mk hc, parseErr]
      have e1 := tsList_parses items h1
      have e2 := errOpt_addl _ kw.addItemsB (tsOpt_parses addI h2)
      have e3 := tsOpt_parses cont h3
      have e4 := tsProps_parses props h4
      have e5 := tsPats_parses pats h5
      have e6 := errOpt_addl _ kw.addPropsB (tsOpt_parses addP h6)
      have e7 := tsOpt_parses pn h7
      have e8 := tsDeps_parses deps h8
      have e9 := tsList_parses els h9
      have m : ∀ m', errList (membersFor c m' (tsList els)) = none := by
        intro m'
        unfold membersFor
        split
        · exact e9
        · rw [errList]
      have mn : errOpt (notFor c (tsList els)) = none := by
        unfold notFor
        split
        · cases hl : tsList els with
          | nil => rw [List.head?_nil, errOpt]
          | cons x xs =>
            rw [hl, errList] at e9
            rw [List.head?_cons, errOpt]
            cases hx : parseErr x with
            | none => rfl
            | some err => rw [hx] at e9; cases e9
        · rw [errOpt]
      have hown : ownErr (nodeSKw c kw props) = none := ownErr_nodeSKw c kw props h0
      have hun : (nodeSKw c kw props).unsupported.isEmpty = true := rfl
      simp only [hun, Bool.not_true, Bool.false_eq_true, if_false, e1, e2, e3, e4, e5, e6, e7, e8, m, mn, hown, firstErr]
theorem tsOpt_parses : ∀ (o : Option Elem), namedO o = true → errOpt (tsOpt o) = none
  | none, _ => by rw [tsOpt, errOpt]
  | some e, h => by
    rw [namedO] at h
    rw [tsOpt, errOpt]
    exact toSchema_parses e h
theorem tsList_parses : ∀ (l : List Elem), namedL l = true → errList (tsList l) = none
  | [], _ => by rw [tsList, errList]
  | e :: es, h => by
    rw [namedL, Bool.and_eq_true] at h
    rw [tsList, errList, toSchema_parses e h.1]
    exact tsList_parses es h.2
theorem tsProps_parses : ∀ (l : List (Key × Elem)), namedK l = true → errNamed (tsProps l) = none
  | [], _ => by rw [tsProps, errNamed]
  | (k, e) :: r, h => by
    rw [namedK, Bool.and_eq_true] at h
    rw [tsProps, errNamed, toSchema_parses e h.1]
    exact tsProps_parses r h.2
theorem tsPats_parses : ∀ (l : List (Key × Elem)), namedK l = true → errNamed (tsPats l) = none
  | [], _ => by rw [tsPats, errNamed]
  | (k, e) :: r, h => by
    rw [namedK, Bool.and_eq_true] at h
    rw [tsPats, errNamed, toSchema_parses e h.1]
    exact tsPats_parses r h.2
theorem tsDeps_parses : ∀ (l : List (Key × Elem)), namedK l = true → errDeps (tsDeps l) = none
  | [], _ => by rw [tsDeps, errDeps]
  | (k, e) :: r, h => by
    rw [namedK, Bool.and_eq_true] at h
    rw [tsDeps, errDeps, toSchema_parses e h.1]
    simp only [ite_self]
    exact tsDeps_parses r h.2
end

end Statham
