/-
  Executing the class statement printed for an object class gives the class back (lemmas for `Props/C02`).
-/
import StathamModel.Py.EvalClass
import StathamModel.Lemmas.EvalTree
namespace Statham.PyEval

/-- the class keywords: `ObjectMeta`'s signature without `description` (printed as the docstring) -/
def sigClassKw : List Gen.Param := Gen.sigObjectMeta.filter fun p => p.name != "description"

theorem filter_kwargsOf (sig : List Gen.Param) (kw : Kw) (k : ReprKids) (q : String → Bool) :
    (kwargsOf sig kw k).filter (fun p => q p.1) = kwargsOf (sig.filter fun p => q p.name) kw k := by
  unfold kwargsOf
  induction sig with
  | nil => rfl
  | cons p r ih =>
    by_cases hk : (p.kind == Gen.ParamKind.keywordOnly) = true <;> by_cases hq : q p.name = true
    · simp only [List.filter_cons, hk, hq, if_true, List.filterMap_cons]
      cases hx : kwExpr kw k p.name with
      | none => simpa [hx] using ih
      | some x => simp only [hx, Option.map_some, List.filter_cons, hq, if_true]; rw [ih]
    · simp only [List.filter_cons, hk, hq, if_true, List.filterMap_cons, Bool.false_eq_true, if_false]
      cases hx : kwExpr kw k p.name with
      | none => simpa [hx] using ih
      | some x => simp only [hx, Option.map_some, List.filter_cons, hq, Bool.false_eq_true, if_false]; rw [ih]
    · simp only [List.filter_cons, hk, hq, if_true, Bool.false_eq_true, if_false]; exact ih
    · simp only [List.filter_cons, hk, hq, Bool.false_eq_true, if_false]; exact ih

theorem classDef_kwargs (e : Elem) :
    (classDef e).kwargs = kwargsOf sigClassKw e.kw (reprKidsOf e) := by
  unfold classDef sigClassKw
  exact filter_kwargsOf Gen.sigObjectMeta e.kw (reprKidsOf e) (fun n => n != "description")

theorem accepts_classKw (t : St) : accepts Gen.sigObjectMeta (kwargsValOf sigClassKw t) = true := by
  unfold accepts kwargsValOf
  rw [List.all_eq_true]
  intro a ha
  obtain ⟨p, hp, hpa⟩ := List.mem_filterMap.mp ha
  obtain ⟨hp1, hp2⟩ := List.mem_filter.mp hp
  have hp0 : p ∈ Gen.sigObjectMeta := (List.mem_filter.mp hp1).1
  cases hk : kwVal t p.name with
  | none => simp [hk] at hpa
  | some v =>
    simp only [hk, Option.map_some, Option.some.injEq] at hpa
    rw [List.any_eq_true]
    exact ⟨p, hp0, by rw [← hpa]; simpa using hp2⟩

/-- what a model class must satisfy for its class statement to determine it -/
structure ClassOK (t : St) : Prop where
  hasProps : t.kw.hasProps = true
  addProps : t.addProps.isSome = true → t.kw.addPropsB = true
  noPats : t.kw.hasPatProps = false → t.patProps = []
  noDeps : t.kw.hasDeps = false → t.deps = []
  propKeys : ∀ p ∈ t.props, BoundKey p.1
  patKeys : ∀ p ∈ t.patProps, PatKey p.1
  depKeys : ∀ p ∈ t.deps, DepOK p
  shape : t = { kw := { default := t.kw.default, const := t.kw.const, enum := t.kw.enum, required := t.kw.required,
                        hasProps := true, hasPatProps := t.kw.hasPatProps, addPropsB := t.kw.addPropsB,
                        minProperties := t.kw.minProperties, maxProperties := t.kw.maxProperties, hasDeps := t.kw.hasDeps,
                        description := t.kw.description },
                props := t.props, patProps := t.patProps, addProps := t.addProps, propNames := t.propNames, deps := t.deps }

theorem vals_classKw (t : St) (h : ClassOK t) :
    applyVals {} (kwargsValOf sigClassKw t) = some
      { t with kw := { t.kw with description := none, hasProps := false }, props := [] } := by
  simp only [kwargsValOf, sigClassKw, Gen.sigObjectMeta, List.filter_cons, List.filter_nil, beq_self_eq_true, if_true, filterMap_cons_toList,
    List.filterMap_nil, bne, show ("description" == "description") = true from rfl, Bool.not_true, Bool.false_eq_true, if_false,
    show ("default" == "description") = false from by decide, show ("const" == "description") = false from by decide,
    show ("enum" == "description") = false from by decide, show ("required" == "description") = false from by decide,
    show ("minProperties" == "description") = false from by decide, show ("maxProperties" == "description") = false from by decide,
    show ("patternProperties" == "description") = false from by decide,
    show ("additionalProperties" == "description") = false from by decide,
    show ("propertyNames" == "description") = false from by decide, show ("dependencies" == "description") = false from by decide,
    Bool.not_false]
  rw [applyVals_gen _ _ _ (step_default t), applyVals_gen _ _ _ (step_const t), applyVals_gen _ _ _ (step_enum t),
    applyVals_gen _ _ _ (step_required t), applyVals_gen _ _ _ (step_minProperties t), applyVals_gen _ _ _ (step_maxProperties t),
    applyVals_gen _ _ _ (step_patternProperties t h.patKeys), applyVals_gen _ _ _ (step_additionalProperties t h.addProps),
    applyVals_gen _ _ _ (step_propertyNames t), applyVals_gen _ _ _ (step_dependencies t h.depKeys)]
  obtain ⟨_, _, hpt, hd, _, _, _, hshape⟩ := h
  obtain ⟨kw, items, addI, cont, props, pats, addP, pn, deps, els⟩ := t
  obtain ⟨d, c, e, ik, aib, mni, mxi, uq, mn, mx, xmn, xmx, mo, f, p, mnl, mxl, req, hasP, hasPt, apb, mnp, mxp, hasD, ds⟩ := kw
  simp only [St.mk.injEq, Kw.mk.injEq] at hshape
  simp only at hpt hd
  simp only [applyVals, Option.some.injEq]
  cases hasPt <;> cases hasD <;>
    simp_all [uPats, uDeps, uDefault, uConst, uEnum, uRequired, uAddProps, uMinProps, uMaxProps]


theorem boundSource_key (k : Key) :
    boundSource k.name (if (k.src == k.name) = true then none else some k.src) = k.src := by
  by_cases hq : k.src = k.name
  · simp [hq, boundSource]
  · have hne : k.src ≠ "" := fun h0 => hq (by rw [h0, Key.src_empty k h0])
    simp [hq, boundSource, hne]

theorem bindLines_props (env : String → Option Elem) : ∀ (props : List (Key × Elem)), WFK env props →
    (∀ p ∈ props, BoundKey p.1) →
    bindLines env (props.map fun p => { attr := p.1.name, ann := propAnnot p.1 p.2, expr := propExpr p.1 (reprExpr p.2) }) =
      some props
  | [], _, _ => rfl
  | (k, e) :: r, hw, hk => by
    rw [WFK] at hw
    have h1 := evalV_propExpr env k _ e (eval_repr env e hw.1)
    have h2 := bindLines_props env r hw.2 fun p hp => hk p (List.mem_cons_of_mem _ hp)
    obtain ⟨hs, hn⟩ := hk (k, e) (List.mem_cons_self ..)
    simp only [List.map_cons, bindLines, h1, h2, propEntry, boundSource_key]
    cases k with
    | mk name required source names =>
      simp only [Option.some.injEq, List.cons.injEq, Prod.mk.injEq, Key.mk.injEq, true_and, and_true]
      exact ⟨hs.symm, hn.symm⟩

/-- **the class statement printed for a model class, executed, is the class** -/
theorem evalClassDef_classDef (env : String → Option Elem) (n : String) (kw : Kw) (items : List Elem) (addI cont : Option Elem)
    (props pats : List (Key × Elem)) (addP pn : Option Elem) (deps : List (Key × Elem)) (els : List Elem)
    (ok : ClassOK ⟨kw, items, addI, cont, props, pats, addP, pn, deps, els⟩)
    (hi : WFL env items) (ha : WFO env addI) (hc : WFO env cont) (hp : WFK env props) (hpt : WFK env pats)
    (hap : WFO env addP) (hpn : WFO env pn) (hd : WFD env deps) (he : WFL env els) :
    evalClassDef env (classDef (.mk (.object n) kw items addI cont props pats addP pn deps els)) =
      some (.mk (.object n) kw items addI cont props pats addP pn deps els) := by
  have hk : EvalKids env (reprKidsOf (.mk (.object n) kw items addI cont props pats addP pn deps els))
      ⟨kw, items, addI, cont, props, pats, addP, pn, deps, els⟩ :=
    ⟨eval_reprList env items hi, eval_reprOpt env addI ha, eval_reprOpt env cont hc, eval_reprProps env props hp,
     eval_reprPats env pats hpt, eval_reprOpt env addP hap, eval_reprOpt env pn hpn, eval_reprDeps env deps hd,
     eval_reprList env els he⟩
  have hkw := evalKVs_kwargsOf env _ _ hk sigClassKw
  unfold evalClassDef
  rw [classDef_kwargs]
  simp only [Elem.kw] at hkw ⊢
  rw [hkw]
  simp only [classDef, if_true, accepts_classKw, vals_classKw _ ok, Elem.props, objName, Elem.cls,
    bindLines_props env props hp ok.propKeys, St.toElem, Elem.kw]
  have hsh := ok.shape
  have hP := ok.hasProps
  simp only [St.mk.injEq] at hsh
  simp only at hP
  cases kw
  simp_all


/-- a class statement that can be executed in namespace `env`: the class is in the form its statement determines, and
    everything it mentions is well formed for `env` (in particular every class it refers to is already there) -/
def DeclOK (env : String → Option Elem) : Elem → Prop
  | .mk c kw items addI cont props pats addP pn deps els =>
    (∃ n, c = .object n) ∧ ClassOK ⟨kw, items, addI, cont, props, pats, addP, pn, deps, els⟩ ∧
    WFL env items ∧ WFO env addI ∧ WFO env cont ∧ WFK env props ∧ WFK env pats ∧ WFO env addP ∧ WFO env pn ∧
    WFD env deps ∧ WFL env els

/-- the classes of a module, top to bottom: each one executable in the namespace the earlier ones leave behind -/
def ChainOK (env : String → Option Elem) : List Elem → Prop
  | [] => True
  | c :: r => DeclOK env c ∧ ChainOK (fun n => if n = objName c.cls then some c else env n) r

theorem classDef_name (e : Elem) : (classDef e).name = objName e.cls := rfl

theorem execClasses_ok : ∀ (cs : List Elem) (env : String → Option Elem), ChainOK env cs →
    execClasses env (cs.map classDef) = some (cs.map fun c => (objName c.cls, c))
  | [], _, _ => rfl
  | c :: r, env, h => by
    rw [ChainOK] at h
    obtain ⟨hd, hr⟩ := h
    cases c with
    | mk cl kw items addI cont props pats addP pn deps els =>
      rw [DeclOK] at hd
      obtain ⟨⟨n, rfl⟩, ok, hi, ha, hc, hp, hpt, hap, hpn, hdd, he⟩ := hd
      have h1 := evalClassDef_classDef env n kw items addI cont props pats addP pn deps els ok hi ha hc hp hpt hap hpn hdd he
      have h2 := execClasses_ok r _ hr
      simp only [List.map_cons, execClasses, h1, classDef_name]
      exact (congrArg (Option.map _) h2).trans rfl

end Statham.PyEval
