/-
  The fuel of the orderer model's depth-first search (`reach`) is enough: every direct dependency of a class is among
  the descendants `descendantsOf` computes for it.  (Used by C11 / C02: "declared after every class it depends on" is
  not vacuous.)
-/
import StathamModel.Orderer
import StathamModel.Lemmas.ListAux
namespace Statham

/-- edge lists are duplicate-free and stay inside a finite universe `U` -/
structure Bounded (g : ClassGraph) (U : List String) : Prop where
  nodup : ∀ n, (g.edges n).Nodup
  inside : ∀ n, g.edges n ⊆ U

theorem reach_keeps_seen (g : ClassGraph) : ∀ (fuel : Nat) (todo seen : List String), seen ⊆ reach g fuel todo seen
  | 0, _, seen => by intro x hx; simpa [reach] using hx
  | fuel + 1, [], seen => by intro x hx; simpa [reach] using hx
  | fuel + 1, n :: todo, seen => by
    intro x hx
    rw [reach]
    split
    · exact reach_keeps_seen g fuel todo seen hx
    · exact reach_keeps_seen g fuel _ _ (List.mem_append_left _ hx)

theorem reach_complete (g : ClassGraph) (U : List String) (hb : Bounded g U) :
    ∀ (fuel : Nat) (todo seen : List String), seen.Nodup → seen ⊆ U → todo ⊆ U →
      todo.length + (U.length - seen.length) * U.length ≤ fuel → ∀ x ∈ todo, x ∈ reach g fuel todo seen
  | 0, todo, seen, _, _, _, hf => by
    intro x hx
    have : todo.length = 0 := by omega
    rw [List.length_eq_zero_iff] at this
    rw [this] at hx; cases hx
  | fuel + 1, [], seen, _, _, _, _ => by intro x hx; cases hx
  | fuel + 1, n :: todo, seen, hn, hs, ht, hf => by
    intro x hx
    rw [reach]
    have hnU : n ∈ U := ht (List.mem_cons_self ..)
    have htU : todo ⊆ U := fun y hy => ht (List.mem_cons_of_mem _ hy)
    by_cases hc : seen.contains n = true
    · simp only [hc, if_true]
      rcases List.mem_cons.mp hx with rfl | hx
      · exact reach_keeps_seen g fuel todo seen (by simpa using hc)
      · refine reach_complete g U hb fuel todo seen hn hs htU ?_ x hx
        simp only [List.length_cons] at hf
        omega
    · simp only [hc, Bool.false_eq_true, if_false]
      have hnot : n ∉ seen := by simpa using hc
      have hn' : (seen ++ [n]).Nodup := by
        rw [List.nodup_append]
        refine ⟨hn, by simp, ?_⟩
        intro a ha b hb'
        rw [List.mem_singleton] at hb'
        rintro rfl
        exact hnot (hb' ▸ ha)
      have hs' : seen ++ [n] ⊆ U := by
        intro y hy
        rcases List.mem_append.mp hy with hy | hy
        · exact hs hy
        · rw [List.mem_singleton] at hy; exact hy ▸ hnU
      have hlen : (seen ++ [n]).length ≤ U.length := List.Nodup.length_le_of_subset hn' hs'
      have hedges : (g.edges n).length ≤ U.length := List.Nodup.length_le_of_subset (hb.nodup n) (hb.inside n)
      have ht' : g.edges n ++ todo ⊆ U := by
        intro y hy
        rcases List.mem_append.mp hy with hy | hy
        · exact hb.inside n hy
        · exact htU hy
      have hmem : x ∈ seen ++ [n] ∨ x ∈ g.edges n ++ todo := by
        rcases List.mem_cons.mp hx with rfl | hx
        · exact Or.inl (List.mem_append_right _ (List.mem_singleton.mpr rfl))
        · exact Or.inr (List.mem_append_right _ hx)
      rcases hmem with hm | hm
      · exact reach_keeps_seen g fuel _ _ hm
      · refine reach_complete g U hb fuel _ _ hn' hs' ht' ?_ x hm
        have hlen' : seen.length + 1 ≤ U.length := by simpa using hlen
        have hf' : todo.length + 1 + (U.length - seen.length) * U.length ≤ fuel + 1 := by simpa using hf
        show (g.edges n ++ todo).length + (U.length - (seen ++ [n]).length) * U.length ≤ fuel
        rw [List.length_append, List.length_append, List.length_singleton]
        -- (L - |seen|) * L = (L - |seen| - 1) * L + L
        have hk : U.length - seen.length = (U.length - (seen.length + 1)) + 1 := by omega
        have hmul : (U.length - seen.length) * U.length = (U.length - (seen.length + 1)) * U.length + U.length := by
          rw [hk, Nat.succ_mul]
        rw [hmul] at hf'
        omega

/-- **every direct dependency is a computed descendant** -/
theorem descendantsOf_direct (g : ClassGraph) (hb : Bounded g g.order) (n x : String) (hx : x ∈ g.edges n) :
    x ∈ descendantsOf g n := by
  unfold descendantsOf
  refine reach_complete g g.order hb _ _ [] List.nodup_nil (by intro y hy; cases hy) (hb.inside n) ?_ x hx
  have hedges : (g.edges n).length ≤ g.order.length := List.Nodup.length_le_of_subset (hb.nodup n) (hb.inside n)
  simp only [List.length_nil, Nat.sub_zero]
  have : g.order.length * (g.order.length + 1) = g.order.length * g.order.length + g.order.length := by
    rw [Nat.mul_add, Nat.mul_one]
  omega

end Statham
