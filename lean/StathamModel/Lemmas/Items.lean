/-
  Arrays: `Items`, `AdditionalItems`, `Contains` against `items` / `additionalItems` /
  `contains` of Draft 6.
-/
import StathamModel.Lemmas.Scalars
namespace Statham

/-- how the model's `additionalItems`/`additionalProperties` relates to the specification's -/
inductive AddlRel : Option (Bool × CallG V) → Bool → Option D6.VF → Prop
  | absent : AddlRel none true none
  | lit (b : Bool) : AddlRel none b (some fun _ => b)
  | elem {t : Bool} {f : CallG V} {g : D6.VF} : RC f g → (t = false → ∀ x, f (.val x) ≠ .pass) →
      AddlRel (some (t, f)) true (some g)

inductive OptRel {α β} (r : α → β → Prop) : Option α → Option β → Prop
  | none : OptRel r none none
  | some {a b} : r a b → OptRel r (some a) (some b)

/-- the tuple walk of `Items.__call__`, by lists instead of indices -/
def tupleGo (fs : List (CallG V)) (fa : CallG V) : List JVal → List V
  | [] => []
  | x :: xs =>
    match fs with
    | f :: fs' => f (.val x) :: tupleGo fs' fa xs
    | [] => fa (.val x) :: tupleGo [] fa xs

theorem itemsCallFrom_tuple (kw : Kw) (sub : VSub) (h : kw.itemsKind = .tuple) (xs : List JVal) (idx : Nat) :
    itemsCallFrom vAlg kw sub idx xs = tupleGo (sub.items.drop idx) (additionalItemCall vAlg kw sub) xs := by
  induction xs generalizing idx with
  | nil => rfl
  | cons x xs ih =>
    rw [itemsCallFrom, ih (idx + 1), itemCall, h]
    simp only
    cases hd : sub.items.drop idx with
    | nil =>
      have hlen : sub.items.length ≤ idx := List.drop_eq_nil_iff.mp hd
      have h1 : sub.items[idx]? = none := List.getElem?_eq_none hlen
      have h2 : sub.items.drop (idx + 1) = [] := List.drop_eq_nil_iff.mpr (by omega)
      simp [tupleGo, h1, h2]
    | cons f fs' =>
      have h1 : sub.items[idx]? = some f := by
        have := List.getElem?_drop (xs := sub.items) (i := idx) (j := 0)
        simp only [hd, Nat.add_zero] at this
        simpa using this.symm
      have h2 : sub.items.drop (idx + 1) = fs' := by
        have := List.drop_drop (l := sub.items) (i := 1) (j := idx)
        rw [hd] at this
        simpa using this.symm
      simp [tupleGo, h1, h2]

theorem itemsCallFrom_single (kw : Kw) (sub : VSub) (h : kw.itemsKind = .single) (f : CallG V)
    (fs : List (CallG V)) (hf : sub.items = f :: fs) (xs : List JVal) (idx : Nat) :
    itemsCallFrom vAlg kw sub idx xs = xs.map fun x => f (.val x) := by
  induction xs generalizing idx with
  | nil => rfl
  | cons x xs ih => rw [itemsCallFrom, ih, itemCall, h]; simp [hf]

theorem R_tupleGo {fs : List (CallG V)} {gs : List D6.VF} {fa : CallG V} {ga : JVal → Bool}
    (h : All2 RC fs gs) (ha : ∀ x, distinctKeys x = true → R (fa (.val x)) (ga x)) (xs : List JVal) (σ : D6.SSub)
    (hadd : ∀ x, (match σ.addItems with | some f => f x | none => true) = ga x)
    (hxs : ∀ x ∈ xs, distinctKeys x = true) :
    R (V.all id (tupleGo fs fa xs)) (D6.itemsOk.go σ gs xs) := by
  induction xs generalizing fs gs with
  | nil => cases h <;> exact R.pass
  | cons x xs ih =>
    have hx := hxs x (List.mem_cons_self ..)
    have hxs' : ∀ y ∈ xs, distinctKeys y = true := fun y hy => hxs y (List.mem_cons_of_mem _ hy)
    cases h with
    | nil =>
      simp only [tupleGo, V.all_cons, id, D6.itemsOk.go]
      have hgo : ∀ ys : List JVal, D6.itemsOk.go σ [] ys = ys.all ga := by
        intro ys
        cases ys with
        | nil => rfl
        | cons y ys =>
          cases hs : σ.addItems with
          | none =>
            have hga : ∀ z, ga z = true := fun z => by have := hadd z; rw [hs] at this; exact this.symm
            simp [D6.itemsOk.go, hga, hs]
          | some f =>
            have hga : f = ga := funext fun z => by have := hadd z; rw [hs] at this; exact this
            simp [D6.itemsOk.go, hga, hs]
      have hrest : R (V.all id (tupleGo [] fa xs)) (xs.all ga) := by
        have := ih (fs := []) (gs := []) All2.nil hxs'
        rwa [hgo] at this
      have hgoal := hgo (x :: xs)
      simp only [D6.itemsOk.go] at hgoal
      rw [hgoal]
      simpa using R.and (ha x hx) hrest
    | cons hr ht =>
      simp only [tupleGo, V.all_cons, id, D6.itemsOk.go]
      exact R.and (hr.1 x hx) (ih ht hxs')

theorem R_and_redundant {a b : V} {c : Bool} (hb : R b c) (ha : a ≠ .crash) (hr : a = .reject → b ≠ .pass) :
    R (a.and b) c := by
  cases a with
  | pass => simpa using hb
  | crash => exact absurd rfl ha
  | reject =>
    have := hr rfl
    rcases hb with hb | hb
    · rw [hb]; exact R.crash _
    · cases c
      · rw [hb]; exact R.reject
      · rw [hb] at this; exact absurd rfl this

theorem tupleGo_not_pass {fs : List (CallG V)} {fa : CallG V} (xs : List JVal) (hlen : fs.length < xs.length)
    (hfa : ∀ x, fa (.val x) ≠ .pass) : V.all id (tupleGo fs fa xs) ≠ .pass := by
  induction xs generalizing fs with
  | nil => simp at hlen
  | cons x xs ih =>
    cases fs with
    | nil =>
      simp only [tupleGo, V.all_cons, id]
      intro h
      exact hfa x (V.and_eq_pass.mp h).1
    | cons f fs' =>
      simp only [tupleGo, V.all_cons, id]
      intro h
      exact ih (by simpa using hlen) (V.and_eq_pass.mp h).2

theorem nothingV_not_pass (x : JVal) : nothingV (.val x) ≠ .pass := by simp [nothingV]

/-- `items` / `additionalItems` / `contains` -/
theorem R_array (kw : Kw) (k : SKw) (sub : VSub) (σ : D6.SSub) (xs : List JVal)
    (hk : kw.itemsKind = k.itemsKind)
    (hitems : All2 RC sub.items σ.items)
    (hwf : match k.itemsKind with
      | .none => True
      | .single => σ.items.length = 1
      | .tuple => True)
    (hadd : AddlRel sub.addItems kw.addItemsB σ.addItems)
    (hcont : OptRel RC sub.contains σ.contains)
    (hxs : ∀ x ∈ xs, distinctKeys x = true) :
    R ((additionalItemsCheck kw sub xs).and ((containsCheck id sub xs).and (V.all id (itemsCallFrom vAlg kw sub 0 xs))))
      (D6.itemsOk k σ xs && D6.containsOk σ xs) := by
  have hc : R (containsCheck id sub xs) (D6.containsOk σ xs) := by
    unfold containsCheck D6.containsOk
    generalize sub.contains = sc at hcont
    generalize σ.contains = σc at hcont
    cases hcont with
    | none => exact R.pass
    | some hr => exact R.any fun x hx => hr.1 x (hxs x hx)
  cases hkind : k.itemsKind with
  | none =>
    have h1 : additionalItemsCheck kw sub xs = .pass := by simp [additionalItemsCheck, hk, hkind]
    have h2 := itemsCallFrom_none kw sub (hk.trans hkind) xs 0
    have h3 : D6.itemsOk k σ xs = true := by simp [D6.itemsOk, hkind]
    rw [h1, h2, h3]
    simpa using hc
  | single =>
    have h1 : additionalItemsCheck kw sub xs = .pass := by simp [additionalItemsCheck, hk, hkind]
    rw [hkind] at hwf
    generalize hsub : sub.items = si at hitems
    generalize hsig : σ.items = σi at hitems
    cases hitems with
    | nil => simp [hsig] at hwf
    | @cons f g fs gs hr ht =>
      have h2 := itemsCallFrom_single kw sub (hk.trans hkind) f fs hsub xs 0
      have h3 : D6.itemsOk k σ xs = xs.all g := by simp [D6.itemsOk, hkind, hsig]
      rw [h1, h2, h3, V.all_map]
      have : R (V.all (fun x => f (.val x)) xs) (xs.all g) := R.all fun x hx => hr.1 x (hxs x hx)
      simpa [Bool.and_comm] using R.and hc this
  | tuple =>
    have hkt := hk.trans hkind
    rw [itemsCallFrom_tuple kw sub hkt xs 0, List.drop_zero]
    have h3 : D6.itemsOk k σ xs = D6.itemsOk.go σ σ.items xs := by simp [D6.itemsOk, hkind]
    rw [h3]
    -- the additional element and the specification's reading of `additionalItems`
    obtain ⟨ga, hga, hfa, hfalsy⟩ : ∃ ga : JVal → Bool,
        (∀ x, (match σ.addItems with | some f => f x | none => true) = ga x) ∧
        (∀ x, distinctKeys x = true → R (additionalItemCall vAlg kw sub (.val x)) (ga x)) ∧
        ((match sub.addItems with | some (t, _) => t | none => kw.addItemsB) = false →
          ∀ x, additionalItemCall vAlg kw sub (.val x) ≠ .pass) := by
      unfold additionalItemCall
      generalize sub.addItems = sa at hadd
      generalize kw.addItemsB = kb at hadd
      generalize σ.addItems = σa at hadd
      cases hadd with
      | absent =>
        refine ⟨fun _ => true, fun _ => rfl, fun x _ => ?_, ?_⟩
        · simp only [vAlg, trivialV]; exact R.pass
        · intro h; simp at h
      | lit =>
        refine ⟨fun _ => kb, fun _ => rfl, fun x _ => ?_, ?_⟩
        · cases kb
          · simp only [vAlg, nothingV]; exact R.reject
          · simp only [vAlg, trivialV]; exact R.pass
        · intro h x
          simp only at h
          subst h
          simp [vAlg, nothingV]
      | @elem t f g hr hfal =>
        refine ⟨g, fun _ => rfl, fun x hx => hr.1 x hx, ?_⟩
        intro h x
        simp only at h
        exact hfal h x
    have hB := R_tupleGo hitems hfa xs σ hga hxs
    have hAB : R ((additionalItemsCheck kw sub xs).and (V.all id (tupleGo sub.items (additionalItemCall vAlg kw sub) xs)))
        (D6.itemsOk.go σ σ.items xs) := by
      apply R_and_redundant hB
      · unfold additionalItemsCheck
        rw [hkt]
        simp only
        split
        · simp
        · cases sub.addItems with
          | none => exact V.ofBool_ne_crash _
          | some p => exact V.ofBool_ne_crash _
      · intro hrej
        unfold additionalItemsCheck at hrej
        rw [hkt] at hrej
        simp only at hrej
        split at hrej
        · cases hrej
        · rename_i hlen
          apply tupleGo_not_pass xs (by omega)
          apply hfalsy
          cases hs : sub.addItems with
          | none => rw [hs] at hrej; cases hb : kw.addItemsB <;> simp_all [V.ofBool]
          | some p => rw [hs] at hrej; obtain ⟨t, f⟩ := p; cases t <;> simp_all [V.ofBool]
    -- reassemble
    have := R.and hAB hc
    rcases hA : additionalItemsCheck kw sub xs with _ | _ | _ <;>
      rcases hC : containsCheck id sub xs with _ | _ | _ <;>
      rcases hT : V.all id (tupleGo sub.items (additionalItemCall vAlg kw sub) xs) with _ | _ | _ <;>
      simp only [hA, hC, hT] at this ⊢ <;> exact this

end Statham
