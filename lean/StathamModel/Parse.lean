/-
  `statham.schema.parser.parse_element` and its helpers, as three structural functions
  over `Schema`:

    parseE    — the element that is built (when no error is raised)
    parseErr  — the first error raised, in the order the Python visits sub-schemas
    (class naming / de-duplication lives in `Dedupe.lean`)

  Which keywords each element class receives is read from the *generated* constructor
  signatures (`Gen.Signatures`), the way `_keyword_filter` reads `inspect.signature`.
-/
import StathamModel.Schema
import StathamModel.Eq
import StathamModel.Names
import StathamModel.Gen.Signatures
import StathamModel.Gen.Constants
namespace Statham

inductive PErr where
  | notImplemented      -- FeatureNotImplementedError
  | missingTitle        -- SchemaParseError.missing_title
  | invalidType         -- SchemaParseError.invalid_type
  | other               -- anything that is not of the schema-parse family
deriving DecidableEq, Repr, Inhabited

/-- `_parse_literal`: strip `_x_autotitle` annotations out of literal values -/
def parseLiteral : JVal → JVal
  | .arr xs => .arr (lits xs)
  | .obj kvs => .obj (litKV kvs)
  | v => v
where
  lits : List JVal → List JVal
    | [] => []
    | x :: xs => parseLiteral x :: lits xs
  litKV : List (String × JVal) → List (String × JVal)
    | [] => []
    | (k, v) :: r => if k = "_x_autotitle" then litKV r else (k, parseLiteral v) :: litKV r

/-- parsed sub-schemas of one schema object -/
structure Parts where
  items : List Elem := []
  addItems : Option Elem := none
  addItemsB : Bool := true
  contains : Option Elem := none
  props : List (Key × Elem) := []
  patProps : List (Key × Elem) := []
  addProps : Option Elem := none
  addPropsB : Bool := true
  propNames : Option Elem := none
  deps : List (Key × Elem) := []

/-- context of a parse: Unicode facts and the reserved-name list -/
structure PCtx where
  ci : CharInfo
  reserved : List String := Gen.reservedProperties

def keep {α} (allowed : List String) (name : String) (v dflt : α) : α :=
  if allowed.contains name then v else dflt

/-- every keyword of the schema object, before `_keyword_filter` -/
def baseKw (k : SKw) (p : Parts) (dflt : Option JVal) : Kw :=
  { default := dflt
    const := k.const.map parseLiteral
    enum := k.enum.map (fun l => l.map parseLiteral)
    itemsKind := k.itemsKind
    addItemsB := p.addItemsB
    minItems := k.minItems
    maxItems := k.maxItems
    uniqueItems := k.uniqueItems.getD false
    minimum := k.minimum
    maximum := k.maximum
    exclusiveMinimum := k.exclusiveMinimum
    exclusiveMaximum := k.exclusiveMaximum
    multipleOf := k.multipleOf
    format := k.format
    pattern := k.pattern
    minLength := k.minLength
    maxLength := k.maxLength
    required := k.required
    hasProps := k.hasProps
    hasPatProps := k.hasPatProps
    addPropsB := p.addPropsB
    minProperties := k.minProperties
    maxProperties := k.maxProperties
    hasDeps := k.hasDeps
    description := k.description }

/-- `_keyword_filter(type_)` on the non-element keywords -/
def filterKw (al : List String) (kw : Kw) : Kw :=
  { default := keep al "default" kw.default none
    const := keep al "const" kw.const none
    enum := keep al "enum" kw.enum none
    itemsKind := keep al "items" kw.itemsKind .none
    addItemsB := keep al "additionalItems" kw.addItemsB true
    minItems := keep al "minItems" kw.minItems none
    maxItems := keep al "maxItems" kw.maxItems none
    uniqueItems := keep al "uniqueItems" kw.uniqueItems false
    minimum := keep al "minimum" kw.minimum none
    maximum := keep al "maximum" kw.maximum none
    exclusiveMinimum := keep al "exclusiveMinimum" kw.exclusiveMinimum none
    exclusiveMaximum := keep al "exclusiveMaximum" kw.exclusiveMaximum none
    multipleOf := keep al "multipleOf" kw.multipleOf none
    format := keep al "format" kw.format none
    pattern := keep al "pattern" kw.pattern none
    minLength := keep al "minLength" kw.minLength none
    maxLength := keep al "maxLength" kw.maxLength none
    required := keep al "required" kw.required none
    hasProps := keep al "properties" kw.hasProps false
    hasPatProps := keep al "patternProperties" kw.hasPatProps false
    addPropsB := keep al "additionalProperties" kw.addPropsB true
    minProperties := keep al "minProperties" kw.minProperties none
    maxProperties := keep al "maxProperties" kw.maxProperties none
    hasDeps := keep al "dependencies" kw.hasDeps false
    description := keep al "description" kw.description none }

def mkElem (c : Cls) (al : List String) (kw : Kw) (p : Parts) : Elem :=
  .mk c (filterKw al kw)
    (keep al "items" p.items [])
    (keep al "additionalItems" p.addItems none)
    (keep al "contains" p.contains none)
    (keep al "properties" p.props [])
    (keep al "patternProperties" p.patProps [])
    (keep al "additionalProperties" p.addProps none)
    (keep al "propertyNames" p.propNames none)
    (keep al "dependencies" p.deps [])
    []

/-- insert into a name-keyed property dict: a later entry replaces the value, keeps the position -/
def propsInsert (d : List (Key × Elem)) (k : Key) (e : Elem) : List (Key × Elem) :=
  match d with
  | [] => [(k, e)]
  | (k', e') :: r => if k'.name = k.name then (k, e) :: r else (k', e') :: propsInsert r k e

/-- `_parse_properties`: attribute names, `required` flags and sources -/
def buildProps (cx : PCtx) (required : List String) (ps : List (String × Elem)) : List (Key × Elem) :=
  ps.foldl (fun d (kv : String × Elem) =>
    propsInsert d { name := attrName cx.ci cx.reserved kv.1, required := required.contains kv.1,
                    source := some kv.1 } kv.2) []

/-- the synthetic `Element()` properties `_parse_object` adds for undeclared required names -/
def withSynthetic (cx : PCtx) (required : List String) (props : List (Key × Elem)) : List (Key × Elem) :=
  let fresh := required.filter fun key =>
    !(props.any fun p => p.1.name == attrName cx.ci cx.reserved key)
  fresh.foldl (fun d key =>
    propsInsert d { name := attrName cx.ci cx.reserved key, required := true, source := some key }
      Elem.trivial) props

def objectAllowed : List String := ["properties", "additionalProperties"] ++ Gen.objectClassArgs

/-- class name of an object schema: `_title_format(title or _x_autotitle)` -/
def className (k : SKw) : String := titleFormat ((k.title.orElse fun _ => k.autotitle).getD "")

/-- `_parse_object` (before de-duplication) -/
def mkObject (cx : PCtx) (k : SKw) (kw : Kw) (p : Parts) : Elem :=
  let props := withSynthetic cx (k.required.getD []) p.props
  let e := mkElem (.object (className k)) objectAllowed kw { p with props := props }
  match e with
  | .mk c kw' a b c' d e' f g h i => .mk c { kw' with hasProps := true } a b c' d e' f g h i

/-- `_parse_array` -/
def mkArray (kw : Kw) (p : Parts) : Elem :=
  let al := Gen.Param.names Gen.sigArray
  match kw.itemsKind with
  | .none => mkElem .array al { kw with itemsKind := .single } { p with items := [Elem.trivial] }
  | _ => mkElem .array al kw p

def typedLeaf (t : String) : Option (Cls × List String) :=
  match Gen.parserTypeMapping.lookup t with
  | some "Boolean" => some (.boolean, Gen.Param.names Gen.sigBoolean)
  | some "Integer" => some (.integer, Gen.Param.names Gen.sigNumeric)
  | some "Null" => some (.null, Gen.Param.names Gen.sigNull)
  | some "Number" => some (.number, Gen.Param.names Gen.sigNumeric)
  | some "String" => some (.string, Gen.Param.names Gen.sigString)
  | _ => none

/-- `_parse_typed` for a single type name -/
def mkTyped (cx : PCtx) (t : String) (k : SKw) (p : Parts) (dflt : Option JVal) : Elem :=
  let kw := baseKw k p dflt
  if t == "object" then mkObject cx k kw p
  else if t == "array" then mkArray kw p
  else match typedLeaf t with
    | some (c, al) => mkElem c al kw p
    | none => Elem.trivial      -- KeyError in the Python; reported by `parseErr`

/-- a schema object without composition keywords (`default` passed separately) -/
def assembleBase (cx : PCtx) (k : SKw) (p : Parts) (dflt : Option JVal) : Elem :=
  match k.type with
  | .none => mkElem .element (Gen.Param.names Gen.sigElement) (baseKw k p dflt) p
  | .single t => mkTyped cx t k p dflt
  | .list [t] => mkTyped cx t k p dflt
  | .list ts => Elem.compose .anyOf (ts.map fun t => mkTyped cx t k p none) dflt

/-- `_compose_elements` -/
def composeElements (c : Cls) (es : List Elem) : Elem :=
  match es with
  | [] => Elem.trivial
  | [e] => e
  | es => Elem.compose c es

def Elem.withDefault (e : Elem) (d : Option JVal) : Elem :=
  match e with
  | .mk c kw a b c' p pp ap pn dp els => .mk c { kw with default := d } a b c' p pp ap pn dp els

def isObjectCls : Cls → Bool
  | .object _ => true
  | _ => false

/-- the members of the outer `AllOf` that `_parse_composition` builds, before filtering -/
def compositionMembers (base : Elem) (anyOf oneOf allOf : List Elem) (not : Option Elem) : List Elem :=
  [base] ++ allOf ++ [composeElements .oneOf oneOf] ++ [composeElements .anyOf anyOf] ++
    (match not with
     | some e => [Elem.mk .not {} [] none none [] [] none none [] [e]]
     | none => [])

/-- the last lines of `_parse_composition`: where the schema's `default` goes -/
def finishComposition (element : Elem) (dflt : Option JVal) : Elem :=
  if isObjectCls element.cls then Elem.compose .allOf [element] dflt
  else match dflt with
    | some d => element.withDefault (some d)
    | none => element

/-- `_parse_composition` -/
def assembleComposition (cx : PCtx) (k : SKw) (p : Parts) (dflt : Option JVal)
    (anyOf oneOf allOf : List Elem) (not : Option Elem) : Elem :=
  finishComposition
    (composeElements .allOf
      ((compositionMembers (assembleBase cx k p none) anyOf oneOf allOf not).filter fun e => !e.isTrivial))
    dflt

def hasComposition (k : SKw) (not : Option Elem) : Bool :=
  k.hasAnyOf || k.hasOneOf || k.hasAllOf || not.isSome

def assemble (cx : PCtx) (k : SKw) (p : Parts) (anyOf oneOf allOf : List Elem) (not : Option Elem) : Elem :=
  let dflt := k.default.map parseLiteral
  if hasComposition k not then assembleComposition cx k p dflt anyOf oneOf allOf not
  else assembleBase cx k p dflt

/-- `_parse_dependencies` puts the array-form entries first -/
def orderDeps (ds : List (Key × Elem)) : List (Key × Elem) :=
  ds.filter (fun d => d.1.names.isSome) ++ ds.filter (fun d => d.1.names.isNone)

/-- the parsed sub-schemas of one schema object, before any restructuring -/
structure Kids where
  items : List Elem := []
  addItems : Option Elem × Bool := (none, true)
  contains : Option Elem := none
  props : List (String × Elem) := []
  patProps : List (String × Elem) := []
  addProps : Option Elem × Bool := (none, true)
  propNames : Option Elem := none
  deps : List (Key × Elem) := []
  anyOf : List Elem := []
  oneOf : List Elem := []
  allOf : List Elem := []
  not : Option Elem := none

def partsOf (cx : PCtx) (k : SKw) (kids : Kids) : Parts :=
  { items := kids.items
    addItems := kids.addItems.1
    addItemsB := kids.addItems.2
    contains := kids.contains
    props := buildProps cx (k.required.getD []) kids.props
    patProps := kids.patProps.map (fun kv => ({ name := kv.1 }, kv.2))
    addProps := kids.addProps.1
    addPropsB := kids.addProps.2
    propNames := kids.propNames
    deps := orderDeps kids.deps }

/-- `parse_element` on a schema object whose sub-schemas have been parsed -/
def assembleK (cx : PCtx) (k : SKw) (kids : Kids) : Elem :=
  assemble cx k (partsOf cx k kids) kids.anyOf kids.oneOf kids.allOf kids.not

mutual
def parseE (cx : PCtx) : Schema → Elem
  | .bool b => if b then Elem.trivial else Elem.nothing
  | .mk k items addI cont props pats addP pn deps anyOf oneOf allOf not =>
    assembleK cx k
      { items := parseList cx items
        addItems := parseAddl cx addI
        contains := parseOpt cx cont
        props := parseNamed cx props
        patProps := parseNamed cx pats
        addProps := parseAddl cx addP
        propNames := parseOpt cx pn
        deps := parseDeps cx deps
        anyOf := parseList cx anyOf
        oneOf := parseList cx oneOf
        allOf := parseList cx allOf
        not := parseOpt cx not }
def parseOpt (cx : PCtx) : Option Schema → Option Elem
  | none => none
  | some s => some (parseE cx s)
/-- `_parse_additional`: a literal boolean stays a boolean -/
def parseAddl (cx : PCtx) : Option Schema → Option Elem × Bool
  | none => (none, true)
  | some s => match s with
    | .bool b => (none, b)
    | s'@(.mk ..) => (some (parseE cx s'), true)
def parseList (cx : PCtx) : List Schema → List Elem
  | [] => []
  | s :: ss => parseE cx s :: parseList cx ss
def parseNamed (cx : PCtx) : List (String × Schema) → List (String × Elem)
  | [] => []
  | (k, s) :: r => (k, parseE cx s) :: parseNamed cx r
def parseDeps (cx : PCtx) : List (Key × Schema) → List (Key × Elem)
  | [] => []
  | (k, s) :: r => (k, parseE cx s) :: parseDeps cx r
end

/-! ### Errors -/

def firstErr : List (Option PErr) → Option PErr
  | [] => none
  | some e :: _ => some e
  | none :: r => firstErr r

def typeNameErr (k : SKw) (t : String) : Option PErr :=
  if t == "object" then
    (if ((k.title.orElse fun _ => k.autotitle).getD "") == "" then some .missingTitle else none)
  else if t == "array" then none
  else if (typedLeaf t).isSome then none else some .other

/-- errors raised while assembling this node itself (after its children parsed) -/
def ownErr (k : SKw) : Option PErr :=
  match k.type with
  | .none => none
  | .single t => typeNameErr k t
  | .list [] => some .other
  | .list ts => firstErr (ts.map (typeNameErr k))

mutual
def parseErr : Schema → Option PErr
  | .bool _ => none
  | .mk k items addI cont props pats addP pn deps anyOf oneOf allOf not =>
    let eProps := errNamed props
    let eItems := errList items
    let ePats := errNamed pats
    let ePn := errOpt pn
    let eCont := errOpt cont
    let eDeps := errDeps deps
    let eAddP := errOpt addP
    let eAddI := errOpt addI
    let eAny := errList anyOf
    let eOne := errList oneOf
    let eAll := errList allOf
    let eNot := errOpt not
    if !k.unsupported.isEmpty then some .notImplemented
    else firstErr [eProps, eItems, ePats, ePn, eCont, eDeps, eAddP, eAddI, ownErr k, eAny, eOne, eAll, eNot]
def errOpt : Option Schema → Option PErr
  | none => none
  | some s => parseErr s
def errList : List Schema → Option PErr
  | [] => none
  | s :: ss => match parseErr s with
    | some e => some e
    | none => errList ss
def errNamed : List (String × Schema) → Option PErr
  | [] => none
  | (_, s) :: r => match parseErr s with
    | some e => some e
    | none => errNamed r
def errDeps : List (Key × Schema) → Option PErr
  | [] => none
  | (k, s) :: r =>
    match (if k.names.isSome then none else parseErr s) with
    | some e => some e
    | none => errDeps r
end

/-- `parse_element(schema)` -/
def parseElement (cx : PCtx) (s : Schema) : Except PErr Elem :=
  match parseErr s with
  | some e => .error e
  | none => .ok (parseE cx s)

end Statham
