/-
  Model classes and inheritance (`statham.schema.elements.meta.ObjectMeta.__new__`).

  A class statement supplies keyword arguments (`ClassArgs`, `none` = not passed), a docstring and the
  properties of its body.  `ObjectMeta.__new__` resolves every keyword as "the argument if passed, else
  the inherited attribute" and builds `{**{name: clone of inherited property}, **own properties}`.

  Two layers:
  * `Cfg` / `inherit` — the pure resolved configuration (values only);
  * `World` / `step`  — a heap of `_Property` objects (`Cell`s) and classes that refer to them by
    identity, with the reconfiguration operations of the public surface.  This layer exists to state
    and prove that classes never share a `_Property` object (inherited ones are cloned).
-/
import StathamModel.Elem
namespace Statham

inductive AddP where
  | flag (b : Bool)
  | elem (e : Elem)
deriving Repr, Inhabited

/-- keyword arguments of a class statement / the resolved class attributes; `none` = `NotPassed` -/
structure ClassArgs where
  default : Option JVal := none
  const : Option JVal := none
  enum : Option (List JVal) := none
  required : Option (List String) := none
  description : Option String := none
  minProperties : Option Num := none
  maxProperties : Option Num := none
  patProps : Option (List (Key × Elem)) := none
  addProps : Option AddP := none
  propNames : Option Elem := none
  deps : Option (List (Key × Elem)) := none
deriving Repr, Inhabited

/-- `get_value(value, attr)` for every keyword: `a` where passed, else `b` -/
def ClassArgs.over (a b : ClassArgs) : ClassArgs :=
  { default := a.default <|> b.default
    const := a.const <|> b.const
    enum := a.enum <|> b.enum
    required := a.required <|> b.required
    description := a.description <|> b.description
    minProperties := a.minProperties <|> b.minProperties
    maxProperties := a.maxProperties <|> b.maxProperties
    patProps := a.patProps <|> b.patProps
    addProps := a.addProps <|> b.addProps
    propNames := a.propNames <|> b.propNames
    deps := a.deps <|> b.deps }

/-- a `Property(element, required=…, source=…)` -/
structure Cell where
  required : Bool := false
  source : Option String := none
  elem : Elem
deriving Repr, Inhabited

/-- Python `{**a, **b}` -/
def dictMerge {α} (a b : List (String × α)) : List (String × α) :=
  b.foldl (fun d kv => dictSet d kv.1 kv.2) a

def nonEmptyDoc (d : Option String) : Option String :=
  match d with
  | some s => if s = "" then none else some s
  | none => none

/-- one class statement -/
structure ClassDecl where
  name : String
  args : ClassArgs := {}
  /-- the docstring: `__init_subclass__` uses it as the description when none is inherited -/
  doc : Option String := none
  props : List (String × Cell) := []
deriving Repr, Inhabited

/-! ### Pure layer -/

structure Cfg where
  args : ClassArgs
  /-- a docstring adopted as description (kept apart: it ranks below every passed/inherited description) -/
  doc : Option String := none
  props : List (String × Cell)
deriving Repr, Inhabited

/-- `Object` itself -/
def Cfg.object : Cfg := { args := { addProps := some (.flag true) }, props := [] }

def inherit (p : Cfg) (d : ClassDecl) : Cfg :=
  { args := d.args.over p.args
    doc := p.doc <|> nonEmptyDoc d.doc
    props := dictMerge p.props d.props }

/-- two class statements in a row, as one -/
def ClassDecl.andThen (d1 d2 : ClassDecl) : ClassDecl :=
  { name := d2.name
    args := d2.args.over d1.args
    doc := nonEmptyDoc d1.doc <|> nonEmptyDoc d2.doc
    props := dictMerge d1.props d2.props }

def Cfg.description (c : Cfg) : Option String := c.args.description <|> c.doc

/-- the class as an element tree (what `dump_elem` shows, and what `Elem.call` / `serElem` consume) -/
def Cfg.toElem (name : String) (c : Cfg) : Elem :=
  .mk (.object name)
    { default := c.args.default, const := c.args.const, enum := c.args.enum, required := c.args.required,
      description := c.description, minProperties := c.args.minProperties, maxProperties := c.args.maxProperties,
      hasProps := true, hasPatProps := c.args.patProps.isSome, hasDeps := c.args.deps.isSome,
      addPropsB := match c.args.addProps with | some (.flag b) => b | _ => true }
    [] none none
    (c.props.map fun p => ({ name := p.1, required := p.2.required, source := p.2.source }, p.2.elem))
    (c.args.patProps.getD [])
    (match c.args.addProps with | some (.elem e) => some e | _ => none)
    c.args.propNames
    (c.args.deps.getD [])
    []

/-! ### Heap layer -/

structure ClsObj where
  name : String
  args : ClassArgs
  doc : Option String := none
  /-- attribute name ↦ identity of the `_Property` object -/
  props : List (String × Nat)
deriving Repr, Inhabited

structure World where
  cells : List Cell
  classes : List ClsObj
deriving Repr, Inhabited

/-- the interpreter after `import statham`: only `Object` -/
def World.init : World := { cells := [], classes := [{ name := "Object", args := { addProps := some (.flag true) }, props := [] }] }

inductive Op where
  /-- `class name(parent, **args): doc; props` — the new class gets the next index -/
  | define (parent : Nat) (d : ClassDecl)
  /-- `cls.<kw> = value` for every keyword passed in `patch` -/
  | setKw (c : Nat) (patch : ClassArgs)
  /-- `cls.properties[name] = Property(...)` -/
  | setProp (c : Nat) (name : String) (p : Cell)
  /-- `del cls.properties[name]` -/
  | delProp (c : Nat) (name : String)
  /-- `cls.properties[name].required = b` -/
  | setRequired (c : Nat) (name : String) (b : Bool)
  /-- `cls.properties[name].element = e` -/
  | setElement (c : Nat) (name : String) (e : Elem)
  /-- `cls(value)` -/
  | use (c : Nat)

/-- the class an operation is aimed at (`define` creates a new one and is aimed at none) -/
def Op.target : Op → Option Nat
  | .define _ _ => none
  | .setKw c _ | .setProp c _ _ | .delProp c _ | .setRequired c _ _ | .setElement c _ _ | .use c => some c

/-- allocate cells for a list of named properties; returns the new heap and the name ↦ id list -/
def alloc (cells : List Cell) : List (String × Cell) → List Cell × List (String × Nat)
  | [] => (cells, [])
  | (n, c) :: r =>
    let (cells', ids) := alloc (cells ++ [c]) r
    (cells', (n, cells.length) :: ids)

def derefProps (cells : List Cell) (props : List (String × Nat)) : List (String × Cell) :=
  props.filterMap fun p => (cells[p.2]?).map fun c => (p.1, c)

def modifyCell (w : World) (c : Nat) (name : String) (f : Cell → Cell) : World :=
  match w.classes[c]? with
  | none => w
  | some cls =>
    match dictGet? cls.props name with
    | none => w
    | some id =>
      match w.cells[id]? with
      | none => w
      | some cell => { w with cells := w.cells.set id (f cell) }

def step (w : World) : Op → World
  | .define parent d =>
    match w.classes[parent]? with
    | none => w
    | some p =>
      -- clones of the inherited properties, then the body's own
      let (cells1, inherited) := alloc w.cells (derefProps w.cells p.props)
      let (cells2, own) := alloc cells1 d.props
      { cells := cells2
        classes := w.classes ++ [{ name := d.name, args := d.args.over p.args, doc := p.doc <|> nonEmptyDoc d.doc,
                                    props := dictMerge inherited own }] }
  | .setKw c patch =>
    match w.classes[c]? with
    | none => w
    | some cls => { w with classes := w.classes.set c { cls with args := patch.over cls.args } }
  | .setProp c name p =>
    match w.classes[c]? with
    | none => w
    | some cls =>
      { cells := w.cells ++ [p]
        classes := w.classes.set c { cls with props := dictSet cls.props name w.cells.length } }
  | .delProp c name =>
    match w.classes[c]? with
    | none => w
    | some cls => { w with classes := w.classes.set c { cls with props := cls.props.filter fun p => p.1 != name } }
  | .setRequired c name b => modifyCell w c name fun cell => { cell with required := b }
  | .setElement c name e => modifyCell w c name fun cell => { cell with elem := e }
  | .use _ => w

def run (w : World) (ops : List Op) : World := ops.foldl step w

/-- what class `c` currently is, by value: its name and resolved configuration -/
def World.view (w : World) (c : Nat) : Option (String × Cfg) :=
  (w.classes[c]?).map fun cls => (cls.name, { args := cls.args, doc := cls.doc, props := derefProps w.cells cls.props })

def World.viewElem (w : World) (c : Nat) : Option Elem :=
  (w.view c).map fun p => p.2.toElem p.1

end Statham
