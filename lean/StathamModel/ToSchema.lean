/-
  `serialize_json` read as a *schema*: `toSchema e` is the document `serialize_json(e)` denotes once its
  `$ref`s to class definitions are followed (the typed tree the driver's decoder produces from that
  document).  It is the serializer `serCore` with the JSON encoding step removed: the same keywords under
  the same conditions, `required` merged the same way, `type`/`title` from the class, composition members
  under the class's own keyword.

  Tie: the driver compares `toSchema e` with the decoded, dereferenced output of the real
  `serialize_json` on every tree the harness builds (op `to_schema`).  The structured form is what lets the
  serializer be composed with the parser model (`parseE`) and with the Draft-6 specification inside Lean:
  `Lemmas/SerOk.lean` proves that the document means what the tree means (C03) and that parsing it gives the
  tree back (C06), for trees in the parser's normal form.

  Containers are taken as they stand: a tree built by the Python has `items` empty exactly when the keyword was
  not passed, one entry for the single-schema form, and `properties` / `patternProperties` / `dependencies`
  empty when not passed (`Elem`'s representation invariant; `Good` on the result re-checks it).

  Property names: one entry per property under its JSON name (`Key.src`), in declaration order; the Python
  builds a dict, so with two properties of one source the later would overwrite — such trees are outside `NF`.
-/
import StathamModel.Parse
import StathamModel.SerJson
namespace Statham

def typeSpecOf (c : Cls) : TypeSpec :=
  match typeNameOf c with
  | some t => .single t
  | none => .none

/-- the value of `required` in the emitted dict (`none` = key absent): merged when `properties` is emitted,
    the explicit list otherwise; an empty list is deleted -/
def emittedRequired (kw : Kw) (props : List (Key × Elem)) : Option (List String) :=
  let l := if kw.hasProps && !props.isEmpty then mergedRequired kw (props.map fun p => (p.1, JVal.null))
           else kw.required.getD []
  if l.isEmpty then none else some l

/-- the keywords of the emitted dict that hold no sub-schema -/
def nodeSKw (c : Cls) (kw : Kw) (props : List (Key × Elem)) : SKw :=
  { type := typeSpecOf c
    title := if isObjectClass c then some (objName c) else none
    description := kw.description
    default := kw.default
    const := kw.const
    enum := kw.enum
    itemsKind := kw.itemsKind
    minItems := kw.minItems
    maxItems := kw.maxItems
    uniqueItems := if kw.uniqueItems then some true else none
    minimum := kw.minimum
    maximum := kw.maximum
    exclusiveMinimum := kw.exclusiveMinimum
    exclusiveMaximum := kw.exclusiveMaximum
    multipleOf := kw.multipleOf
    format := kw.format
    pattern := kw.pattern
    minLength := kw.minLength
    maxLength := kw.maxLength
    required := emittedRequired kw props
    hasProps := kw.hasProps && !props.isEmpty
    hasPatProps := kw.hasPatProps
    minProperties := kw.minProperties
    maxProperties := kw.maxProperties
    hasDeps := kw.hasDeps
    hasAnyOf := c == .anyOf
    hasOneOf := c == .oneOf
    hasAllOf := c == .allOf }

/-- `additionalItems` / `additionalProperties`: an element, or the literal `false` -/
def addlSchema (s : Option Schema) (b : Bool) : Option Schema :=
  match s with
  | some s => some s
  | none => if b then none else some (.bool false)

def membersFor {α} (c mode : Cls) (l : List α) : List α := if c == mode then l else []

def notFor {α} (c : Cls) (l : List α) : Option α := if c == .not then l.head? else none

mutual
def toSchema : Elem → Schema
  | .mk c kw items addI cont props pats addP pn deps els =>
    let sItems := tsList items
    let sAddI := tsOpt addI
    let sCont := tsOpt cont
    let sProps := tsProps props
    let sPats := tsPats pats
    let sAddP := tsOpt addP
    let sPn := tsOpt pn
    let sDeps := tsDeps deps
    let sEls := tsList els
    if c == .nothing then .bool false
    else .mk (nodeSKw c kw props) sItems (addlSchema sAddI kw.addItemsB) sCont sProps sPats
      (addlSchema sAddP kw.addPropsB) sPn sDeps
      (membersFor c .anyOf sEls) (membersFor c .oneOf sEls) (membersFor c .allOf sEls) (notFor c sEls)
def tsOpt : Option Elem → Option Schema
  | none => none
  | some e => some (toSchema e)
def tsList : List Elem → List Schema
  | [] => []
  | e :: es => toSchema e :: tsList es
def tsProps : List (Key × Elem) → List (String × Schema)
  | [] => []
  | (k, e) :: r => (k.src, toSchema e) :: tsProps r
def tsPats : List (Key × Elem) → List (String × Schema)
  | [] => []
  | (k, e) :: r => (k.name, toSchema e) :: tsPats r
def tsDeps : List (Key × Elem) → List (Key × Schema)
  | [] => []
  | (k, e) :: r => (k, toSchema e) :: tsDeps r
end

/-! ### The parser's view of a node's own children -/

def addlKid (e : Option Elem) (b : Bool) : Option Elem × Bool :=
  match e with
  | some e => (some e, true)
  | none => (none, b)

/-- the direct children of an element, in the shape the parser hands them to `assembleK` -/
def nodeKids (e : Elem) : Kids :=
  { items := e.items
    addItems := addlKid e.addItems e.kw.addItemsB
    contains := e.contains
    props := e.props.map fun p => (p.1.src, p.2)
    patProps := e.patProps.map fun p => (p.1.name, p.2)
    addProps := addlKid e.addProps e.kw.addPropsB
    propNames := e.propNames
    deps := e.deps
    anyOf := membersFor e.cls .anyOf e.elements
    oneOf := membersFor e.cls .oneOf e.elements
    allOf := membersFor e.cls .allOf e.elements
    not := notFor e.cls e.elements }

def notNothing (o : Option Elem) : Prop :=
  match o with
  | some e => e.cls ≠ .nothing
  | none => True

/-- **Normal form of one node**: the parser, given this node's own keywords and children, builds this very
    node again.  (`Nothing()` is the image of `false` only when it carries nothing.) -/
def NFnode (cx : PCtx) (e : Elem) : Prop :=
  (e.cls = .nothing → e = Elem.nothing) ∧
  (e.cls ≠ .nothing → assembleK cx (nodeSKw e.cls e.kw e.props) (nodeKids e) = e) ∧
  notNothing e.addItems ∧ notNothing e.addProps

mutual
/-- every node of the tree is in normal form -/
def NF (cx : PCtx) : Elem → Prop
  | .mk c kw items addI cont props pats addP pn deps els =>
    NFnode cx (.mk c kw items addI cont props pats addP pn deps els) ∧
    NFL cx items ∧ NFO cx addI ∧ NFO cx cont ∧ NFK cx props ∧ NFK cx pats ∧ NFO cx addP ∧ NFO cx pn ∧
    NFK cx deps ∧ NFL cx els
def NFO (cx : PCtx) : Option Elem → Prop
  | none => True
  | some e => NF cx e
def NFL (cx : PCtx) : List Elem → Prop
  | [] => True
  | e :: es => NF cx e ∧ NFL cx es
def NFK (cx : PCtx) : List (Key × Elem) → Prop
  | [] => True
  | (_, e) :: r => NF cx e ∧ NFK cx r
end

end Statham
