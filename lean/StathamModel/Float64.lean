/-
  Exact model of the three IEEE-754 binary64 operations the library performs:
  `float(int)`, `float / float` and `float % float` (zero test only), with
  round-to-nearest-even, subnormals and overflow.  A finite double is the reduced ratio
  `n / d` (`Num.flt`).  `none` means the operation overflows: `float(int)` raises
  `OverflowError`; a quotient becomes `inf`, on which `int(inf)` raises `OverflowError`.
-/
import StathamModel.Json
namespace Statham

def pow2 (n : Nat) : Nat := 1 <<< n

/-- reduce `n / d` (d > 0) to lowest terms -/
def reduceRatio (n : Int) (d : Nat) : Int × Nat :=
  let g := Nat.gcd n.natAbs d
  if g == 0 then (n, d) else (n / (g : Int), d / g)

/-- Round the positive rational `num/den` to the nearest binary64 (ties to even).
    Returns mantissa and exponent (`value = q * 2^e`), or `none` on overflow. -/
def roundPos (num den : Nat) : Option (Nat × Int) :=
  if num == 0 then some (0, 0) else
  let ln := Nat.log2 num
  let ld := Nat.log2 den
  let e0 : Int := (ln : Int) - (ld : Int) - 52
  let scale (e : Int) : Nat × Nat :=
    if e ≥ 0 then (num, den * pow2 e.toNat) else (num * pow2 (-e).toNat, den)
  let fix (e : Int) : Int :=
    let (n, d) := scale e
    let q := n / d
    if q ≥ pow2 53 then e + 1 else if q < pow2 52 then e - 1 else e
  let e1 := fix e0
  let e2 := fix e1
  let e3 := if e2 < -1074 then -1074 else e2
  let (n, d) := scale e3
  let q := n / d
  let r := n % d
  let q' := if 2 * r > d then q + 1 else if 2 * r == d then (if q % 2 == 1 then q + 1 else q) else q
  let (q'', e4) := if q' == pow2 53 then (pow2 52, e3 + 1) else (q', e3)
  if e4 > 971 then none else some (q'', e4)

/-- mantissa/exponent pair to a reduced `Num.flt` -/
def dyToNum (neg : Bool) (q : Nat) (e : Int) : Num :=
  let (n, d) : Int × Nat :=
    if e ≥ 0 then ((q * pow2 e.toNat : Nat), 1) else reduceRatio (q : Int) (pow2 (-e).toNat)
  .flt (if neg then -n else n) d

/-- round the rational `n / d` (d > 0) to a double -/
def roundRatio (n : Int) (d : Nat) : Option Num :=
  match roundPos n.natAbs d with
  | none => none
  | some (q, e) => some (dyToNum (n < 0) q e)

/-- Python `float(i)`; `none` = `OverflowError: int too large to convert to float`. -/
def toDouble (i : Int) : Option Num :=
  if i.natAbs < pow2 53 then some (.flt i 1) else roundRatio i 1

/-- the double a number denotes when it takes part in float arithmetic -/
def asDouble : Num → Option Num
  | .int i => toDouble i
  | .flt n d => some (.flt n d)

/-- `a / b` for doubles `a`, `b ≠ 0`; `none` = the quotient is `±inf`. -/
def fdiv (a b : Num) : Option Num :=
  let n := a.numer * b.denom
  let d := b.numer * a.denom
  if d == 0 then none
  else if d < 0 then roundRatio (-n) d.natAbs else roundRatio n d.natAbs

/-- is the (finite) double an integer: `int(q) == q` -/
def Num.isIntegral (q : Num) : Bool := q.numer % (q.denom : Int) == 0

end Statham
