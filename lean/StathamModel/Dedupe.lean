/-
  `_ParseState.dedupe`: class naming.

  The Python creates object classes in a fixed order while parsing and, per formatted title,
  keeps the list of pairwise-unequal classes seen so far; a class equal to an earlier one *is*
  the earlier one, an unequal one is renamed `Title_<count>`.  Because `Element.__eq__` ignores
  class names, the decision never depends on earlier renamings, so the model computes
    classSeq   — the classes in creation order (mirrors the order of `parse_element`)
    seenTable  — the per-title lists
    rename     — the final name of every class occurrence in the tree
-/
import StathamModel.Parse
namespace Statham

/-- object classes created at this node itself (after its sub-schemas), in order -/
def ownClasses (cx : PCtx) (k : SKw) (p : Parts) (comp : Bool) : List Elem :=
  let dflt := if comp then none else k.default.map parseLiteral
  match k.type with
  | .none => []
  | .single t => if t == "object" then [mkTyped cx t k p dflt] else []
  | .list [t] => if t == "object" then [mkTyped cx t k p dflt] else []
  | .list ts => (ts.filter (· == "object")).map fun t => mkTyped cx t k p none

mutual
def classSeq (cx : PCtx) : Schema → List Elem
  | .bool _ => []
  | .mk k items addI cont props pats addP pn deps anyOf oneOf allOf not =>
    let p : Parts := partsOf cx k
      { items := parseList cx items
        addItems := parseAddl cx addI
        contains := parseOpt cx cont
        props := parseNamed cx props
        patProps := parseNamed cx pats
        addProps := parseAddl cx addP
        propNames := parseOpt cx pn
        deps := parseDeps cx deps }
    let notE := parseOpt cx not
    seqNamed cx props ++ seqList cx items ++ seqNamed cx pats ++ seqOpt cx pn ++ seqOpt cx cont ++
      seqDeps cx deps ++ seqOpt cx addP ++ seqOpt cx addI ++
      ownClasses cx k p (hasComposition k notE) ++
      seqList cx anyOf ++ seqList cx oneOf ++ seqList cx allOf ++ seqOpt cx not
def seqOpt (cx : PCtx) : Option Schema → List Elem
  | none => []
  | some s => classSeq cx s
def seqList (cx : PCtx) : List Schema → List Elem
  | [] => []
  | s :: ss => classSeq cx s ++ seqList cx ss
def seqNamed (cx : PCtx) : List (String × Schema) → List Elem
  | [] => []
  | (_, s) :: r => classSeq cx s ++ seqNamed cx r
def seqDeps (cx : PCtx) : List (Key × Schema) → List Elem
  | [] => []
  | (k, s) :: r => (if k.names.isSome then [] else classSeq cx s) ++ seqDeps cx r
end

abbrev Seen := List (String × List Elem)

def clsTitle : Cls → String
  | .object n => n
  | _ => ""

def seenLookup (seen : Seen) (n : String) : List Elem :=
  match seen.find? (fun e => e.1 == n) with
  | some e => e.2
  | none => []

def seenInsert (seen : Seen) (c : Elem) : Seen :=
  let n := clsTitle c.cls
  let l := seenLookup seen n
  if l.any (fun e => elemEq c e) then seen
  else if seen.any (fun e => e.1 == n) then seen.map (fun e => if e.1 == n then (n, e.2 ++ [c]) else e)
  else seen ++ [(n, [c])]

def seenTable (seq : List Elem) (init : Seen := []) : Seen := seq.foldl seenInsert init

def indexOfEq (c : Elem) : List Elem → Nat → Option Nat
  | [], _ => none
  | e :: r, i => if elemEq c e then some i else indexOfEq c r (i + 1)

def finalName (seen : Seen) (c : Elem) : String :=
  let n := clsTitle c.cls
  match indexOfEq c (seenLookup seen n) 0 with
  | some 0 => n
  | some i => n ++ "_" ++ toString i
  | none => n

/-- the class object an occurrence *is*: the first class of that title equal to it (`dedupe` returns the earlier
    object, so the occurrence's own spelling of equal literals — `1` vs `1.0`, member order — is not kept) -/
def representative (seen : Seen) (c : Elem) : Elem :=
  let l := seenLookup seen (clsTitle c.cls)
  match indexOfEq c l 0 with
  | some i => (l[i]?).getD c
  | none => c

/-- every class occurrence replaced by its representative and given its final name, at every depth.
    `fuel` bounds the depth (a representative is equal to, hence as deep as, the occurrence it replaces). -/
def renameF (seen : Seen) : Nat → Elem → Elem
  | 0, e => e
  | fuel + 1, e =>
    match e.cls with
    | .object _ =>
      match representative seen e with
      | .mk _ kw items addI cont props pats addP pn deps els =>
        .mk (.object (finalName seen e)) kw (items.map (renameF seen fuel)) (addI.map (renameF seen fuel))
          (cont.map (renameF seen fuel)) (props.map fun p => (p.1, renameF seen fuel p.2))
          (pats.map fun p => (p.1, renameF seen fuel p.2)) (addP.map (renameF seen fuel)) (pn.map (renameF seen fuel))
          (deps.map fun p => (p.1, renameF seen fuel p.2)) (els.map (renameF seen fuel))
    | _ =>
      match e with
      | .mk c kw items addI cont props pats addP pn deps els =>
        .mk c kw (items.map (renameF seen fuel)) (addI.map (renameF seen fuel))
          (cont.map (renameF seen fuel)) (props.map fun p => (p.1, renameF seen fuel p.2))
          (pats.map fun p => (p.1, renameF seen fuel p.2)) (addP.map (renameF seen fuel)) (pn.map (renameF seen fuel))
          (deps.map fun p => (p.1, renameF seen fuel p.2)) (els.map (renameF seen fuel))

def rename (seen : Seen) (e : Elem) : Elem := renameF seen 128 e

/-- `parse_element(schema)` with a fresh `_ParseState` -/
def parseNamed1 (cx : PCtx) (s : Schema) : Except PErr Elem :=
  match parseErr s with
  | some e => .error e
  | none => .ok (rename (seenTable (classSeq cx s)) (parseE cx s))

/-- `parse(document)`: the root, then every entry of the root's `definitions`, one shared state -/
def parseDoc (cx : PCtx) (root : Schema) (defs : List (String × Schema)) : Except PErr (List Elem) :=
  match firstErr (parseErr root :: defs.map (fun d => parseErr d.2)) with
  | some e => .error e
  | none =>
    let seen := seenTable (classSeq cx root ++ (defs.map fun d => classSeq cx d.2).flatten)
    .ok (rename seen (parseE cx root) :: defs.map fun d => rename seen (parseE cx d.2))

end Statham
