/-
  Validation and construction: `Element.__call__`, `Object.__new__/__init__`, the
  validators, `Properties`, `Items`, `_attempt_schemas`, `Not.construct`,
  `Number.construct`.

  Outcome of a call (`Res`):
    ok r     — returned `r`
    reject   — raised `ValidationError`
    crash    — some evaluated sub-computation performs float arithmetic that overflows
               (`OverflowError`) or divides by zero.  `crash` is *absorbing and
               order-insensitive* here: it means "outside the domain in which the model
               predicts the implementation"; the harness compares verdicts only when the
               model does not say `crash`, and requires the implementation not to crash then.

  `AdditionalProperties` is not modelled as a separate validator: it rejects exactly when a
  key resolves to `Nothing()`, and then `construct` rejects the same key (see DESIGN §4.3).
-/
import StathamModel.Elem
import StathamModel.Float64
import StathamModel.Env
import StathamModel.Gen.Validators
namespace Statham

/-- What an element returns. -/
inductive RVal where
  | notPassed
  | null
  | bool (b : Bool)
  | num (n : Num)
  | str (s : String)
  | arr (xs : List RVal)
  | anon (kvs : List (String × RVal))                 -- `_AnonymousObject`
  | inst (cls : String) (kvs : List (String × RVal))  -- instance of an `Object` class; `_dict`
  | raw (v : JVal)                                    -- a Python value handed back untouched
deriving Repr, Inhabited

inductive Arg where
  | notPassed
  | val (v : JVal)
deriving Repr, Inhabited

inductive Res where
  | ok (r : RVal)
  | reject
  | crash
deriving Repr, Inhabited

/-- verdict of validators -/
inductive V where
  | pass | reject | crash
deriving DecidableEq, Repr, Inhabited

namespace V
def and : V → V → V
  | .crash, _ => .crash
  | _, .crash => .crash
  | .pass, .pass => .pass
  | _, _ => .reject
def ofBool (b : Bool) : V := if b then .pass else .reject
def all {α} (f : α → V) (l : List α) : V := l.foldr (fun a acc => V.and (f a) acc) .pass
/-- at least one passes (crash absorbing) -/
def any {α} (f : α → V) (l : List α) : V :=
  if l.any (fun a => f a == .crash) then .crash
  else ofBool (l.any (fun a => f a == .pass))
end V

namespace Res
def verdict : Res → V
  | .ok _ => .pass
  | .reject => .reject
  | .crash => .crash
def isOk : Res → Bool
  | .ok _ => true
  | _ => false
/-- run validators `g`, then `r` (both evaluated; crash absorbing) -/
def guard (g : V) (r : Res) : Res :=
  match g, r with
  | .crash, _ => .crash
  | _, .crash => .crash
  | .pass, r => r
  | .reject, _ => .reject
end Res

/-- `Element()` applied to a value: always accepts; dicts come back as `_AnonymousObject`. -/
def trivialConv : JVal → RVal
  | .null => .null
  | .bool b => .bool b
  | .num n => .num n
  | .str s => .str s
  | .arr xs => .arr (conv xs)
  | .obj kvs => .anon (convKV kvs)
where
  conv : List JVal → List RVal
    | [] => []
    | x :: xs => trivialConv x :: conv xs
  convKV : List (String × JVal) → List (String × RVal)
    | [] => []
    | (k, v) :: r => (k, trivialConv v) :: convKV r

/-- `Element()(arg)` -/
def trivialCall : Arg → Res
  | .notPassed => .ok .notPassed
  | .val v => .ok (trivialConv v)

/-- `Nothing()(arg)` -/
def nothingCall : Arg → Res
  | .notPassed => .ok .notPassed
  | .val _ => .reject

/-! ### The type validator (`InstanceOf`, `NoMatch`) -/
def typeOk : Cls → JVal → Bool
  | .element, _ => true
  | .nothing, _ => false
  | .boolean, v => match v with | .bool _ => true | _ => false
  | .integer, v => match v with | .num (.int _) => true | _ => false
  | .null, v => match v with | .null => true | _ => false
  | .number, v => match v with | .num _ => true | _ => false
  | .string, v => match v with | .str _ => true | _ => false
  | .array, v => match v with | .arr _ => true | _ => false
  | .object _, v => match v with | .obj _ => true | _ => false
  | .anyOf, _ => true
  | .oneOf, _ => true
  | .allOf, _ => true
  | .not, _ => true

/-! ### Keyword validators that need no sub-element -/

def optCheck {α} (o : Option α) (f : α → V) : V :=
  match o with
  | none => .pass
  | some a => f a

/-- `MultipleOf._validate` -/
def multipleOfCheck (x m : Num) : V :=
  match m with
  | .flt mn md =>
    if mn == 0 then .crash else
    match asDouble x with
    | none => .crash
    | some xd => match fdiv xd (.flt mn md) with
      | none => .crash
      | some q => V.ofBool q.isIntegral
  | .int mi =>
    if mi == 0 then .crash else
    match x with
    | .int xi => V.ofBool (xi % mi == 0)
    | .flt n d => match toDouble mi with
      | none => .crash
      | some md => V.ofBool ((n * md.denom) % ((d : Int) * md.numer) == 0)

def hasDup (xs : List JVal) : Bool :=
  match xs with
  | [] => false
  | x :: r => r.any (fun y => JVal.jeq x y) || hasDup r

def numChecks (kw : Kw) (x : Num) : V :=
  (optCheck kw.minimum fun p => V.ofBool (!Gen.Minimum.fails x p)).and <|
  (optCheck kw.maximum fun p => V.ofBool (!Gen.Maximum.fails x p)).and <|
  (optCheck kw.exclusiveMinimum fun p => V.ofBool (!Gen.ExclusiveMinimum.fails x p)).and <|
  (optCheck kw.exclusiveMaximum fun p => V.ofBool (!Gen.ExclusiveMaximum.fails x p)).and <|
  (optCheck kw.multipleOf fun m => multipleOfCheck x m)

def strChecks (env : Env) (kw : Kw) (s : String) : V :=
  let len := Num.ofNat (JVal.strLen s)
  (optCheck kw.minLength fun p => V.ofBool (!Gen.MinLength.fails len p)).and <|
  (optCheck kw.maxLength fun p => V.ofBool (!Gen.MaxLength.fails len p)).and <|
  (optCheck kw.pattern fun p => V.ofBool (env.re p s)).and <|
  (optCheck kw.format fun f => match env.fmt f with
    | none => .pass
    | some c => V.ofBool (c s))

def arrChecks (kw : Kw) (xs : List JVal) : V :=
  let len := Num.ofNat xs.length
  (optCheck kw.minItems fun p => V.ofBool (!Gen.MinItems.fails len p)).and <|
  (optCheck kw.maxItems fun p => V.ofBool (!Gen.MaxItems.fails len p)).and <|
  V.ofBool (!(kw.uniqueItems && hasDup xs))

/-- names that must be present: the explicit `required` list plus required properties
    without a default (`_PropertyDict.required`). -/
def requiredNames (kw : Kw) (props : List (Key × Option JVal)) : List String :=
  (kw.required.getD []) ++
    (props.filter (fun p => p.1.required && p.2.isNone)).map (fun p => p.1.src)

def objChecks (kw : Kw) (props : List (Key × Option JVal)) (depNames : List (String × List String))
    (kvs : List (String × JVal)) : V :=
  let len := Num.ofNat kvs.length
  let ks := JVal.keys kvs
  (V.ofBool ((requiredNames kw props).all (fun n => ks.contains n))).and <|
  (optCheck kw.minProperties fun p => V.ofBool (!Gen.MinProperties.fails len p)).and <|
  (optCheck kw.maxProperties fun p => V.ofBool (!Gen.MaxProperties.fails len p)).and <|
  V.ofBool (depNames.all fun d => !ks.contains d.1 || d.2.all (fun n => ks.contains n))

def literalChecks (kw : Kw) (v : JVal) : V :=
  (optCheck kw.const fun c => V.ofBool (JVal.jeq v c)).and <|
  (optCheck kw.enum fun l => V.ofBool (l.any (fun c => JVal.jeq v c)))

/-! ### Closures for sub-elements -/

abbrev CallG (ρ : Type) := Arg → ρ
abbrev Call := CallG Res

/-- the sub-elements of one element, as functions of the argument they are called with;
    `ρ` is what a call yields (`Res` for the real thing, `V` for the verdict-only view) -/
structure SubG (ρ : Type) where
  items : List (CallG ρ) := []
  addItems : Option (Bool × CallG ρ) := none      -- (is it truthy i.e. not `Nothing`, call)
  contains : Option (CallG ρ) := none
  props : List (Key × Option JVal × CallG ρ) := []  -- key, the property element's default, call
  patProps : List (Key × CallG ρ) := []
  addProps : Option (CallG ρ) := none
  propNames : Option (CallG ρ) := none
  deps : List (Key × CallG ρ) := []
  elements : List (CallG ρ) := []

abbrev Sub := SubG Res

def SubG.map {ρ σ} (g : ρ → σ) (s : SubG ρ) : SubG σ :=
  { items := s.items.map (fun f a => g (f a))
    addItems := s.addItems.map (fun p => (p.1, fun a => g (p.2 a)))
    contains := s.contains.map (fun f a => g (f a))
    props := s.props.map (fun p => (p.1, p.2.1, fun a => g (p.2.2 a)))
    patProps := s.patProps.map (fun p => (p.1, fun a => g (p.2 a)))
    addProps := s.addProps.map (fun f a => g (f a))
    propNames := s.propNames.map (fun f a => g (f a))
    deps := s.deps.map (fun p => (p.1, fun a => g (p.2 a)))
    elements := s.elements.map (fun f a => g (f a)) }

/-! ### `_attempt_schemas` -/
def firstOk : List Res → Option RVal
  | [] => none
  | .ok r :: _ => some r
  | _ :: rest => firstOk rest

def countOk (rs : List Res) : Nat := (rs.filter Res.isOk).length

def anyCrash (rs : List Res) : Bool := rs.any (fun r => match r with | .crash => true | _ => false)
def anyReject (rs : List Res) : Bool := rs.any (fun r => match r with | .reject => true | _ => false)

def attempt (mode : Cls) (rs : List Res) : Res :=
  if anyCrash rs then .crash else
  match firstOk rs with
  | none => .reject
  | some r =>
    match mode with
    | .oneOf => if countOk rs > 1 then .reject else .ok r
    | .allOf => if anyReject rs then .reject else .ok r
    | _ => .ok r

/-- `AllOf(e₁, …)(arg)` for the composite that `Properties.__getitem__` builds: the composite
    has no default, so not-passed stays not-passed. -/
def allOfCall (fs : List Call) (a : Arg) : Res :=
  match a with
  | .notPassed => .ok .notPassed
  | .val v => attempt .allOf (fs.map (fun f => f (.val v)))

/-- the three ways `Properties`/`Items` manufacture an element on the fly -/
structure Alg (ρ : Type) where
  trivial : CallG ρ                       -- `Element()`
  nothing : CallG ρ                       -- `Nothing()`
  allOf : List (CallG ρ) → CallG ρ        -- `AllOf(*elements)` without a default

def resAlg : Alg Res := { trivial := trivialCall, nothing := nothingCall, allOf := allOfCall }

/-! ### `Items` -/
def additionalItemCall {ρ} (alg : Alg ρ) (kw : Kw) (sub : SubG ρ) : CallG ρ :=
  match sub.addItems with
  | some (_, f) => f
  | none => if kw.addItemsB then alg.trivial else alg.nothing

def itemCall {ρ} (alg : Alg ρ) (kw : Kw) (sub : SubG ρ) (idx : Nat) : CallG ρ :=
  match kw.itemsKind with
  | .none => alg.trivial
  | .single => (sub.items.head?).getD alg.trivial
  | .tuple => (sub.items[idx]?).getD (additionalItemCall alg kw sub)

def collect : List Res → Res
  | [] => .ok (.arr [])
  | r :: rest =>
    match r, collect rest with
    | .crash, _ => .crash
    | _, .crash => .crash
    | .reject, _ => .reject
    | _, .reject => .reject
    | .ok x, .ok (.arr xs) => .ok (.arr (x :: xs))
    | .ok _, .ok _ => .reject  -- unreachable

def itemsCallFrom {ρ} (alg : Alg ρ) (kw : Kw) (sub : SubG ρ) (idx : Nat) : List JVal → List ρ
  | [] => []
  | x :: xs => itemCall alg kw sub idx (.val x) :: itemsCallFrom alg kw sub (idx + 1) xs

def itemsCall (kw : Kw) (sub : Sub) (xs : List JVal) : Res :=
  collect (itemsCallFrom resAlg kw sub 0 xs)

/-- `AdditionalItems._validate` -/
def additionalItemsCheck {ρ} (kw : Kw) (sub : SubG ρ) (xs : List JVal) : V :=
  match kw.itemsKind with
  | .tuple =>
    if xs.length ≤ sub.items.length then .pass
    else match sub.addItems with
      | some (truthy, _) => V.ofBool truthy
      | none => V.ofBool kw.addItemsB
  | _ => .pass

def containsCheck {ρ} (vd : ρ → V) (sub : SubG ρ) (xs : List JVal) : V :=
  optCheck sub.contains fun f => V.any (fun x => vd (f (.val x))) xs

/-! ### `Properties` -/
def additionalPropCall {ρ} (alg : Alg ρ) (kw : Kw) (sub : SubG ρ) : CallG ρ :=
  match sub.addProps with
  | some f => f
  | none => if kw.addPropsB then alg.trivial else alg.nothing

/-- last declared property whose source is `k` (`{prop.source: prop for …}.get(k)`) -/
def findDeclared {ρ} (props : List (Key × Option JVal × CallG ρ)) (k : String) : Option (Key × CallG ρ) :=
  props.foldl (fun acc p => if p.1.src == k then some (p.1, p.2.2) else acc) none

def matchingPats {ρ} (env : Env) (pats : List (Key × CallG ρ)) (k : String) : List (CallG ρ) :=
  (pats.filter (fun p => env.re p.1.name k)).map (·.2)

/-- `Properties.__getitem__(k)` applied to `a`: the result key and the outcome -/
def resolveCall {ρ} (alg : Alg ρ) (env : Env) (kw : Kw) (sub : SubG ρ) (k : String) (a : Arg) : String × ρ :=
  let pats := matchingPats env sub.patProps k
  match findDeclared sub.props k, pats with
  | none, [] => (k, additionalPropCall alg kw sub a)
  | none, [f] => (k, f a)
  | none, fs => (k, alg.allOf fs a)
  | some (key, f), [] => (key.name, f a)
  | some (key, f), fs => (key.name, alg.allOf (f :: fs) a)

/-- keys in the order `Properties.__call__` visits them -/
def visitKeys {ρ} (sub : SubG ρ) (kvs : List (String × JVal)) : List String :=
  let srcs := removeDups (sub.props.map (fun p => p.1.src))
  srcs ++ (JVal.keys kvs).filter (fun k => !srcs.contains k)

def collectKV : List (String × Res) → Res
  | [] => .ok (.anon [])
  | (k, r) :: rest =>
    match r, collectKV rest with
    | .crash, _ => .crash
    | _, .crash => .crash
    | .reject, _ => .reject
    | _, .reject => .reject
    | .ok x, .ok (.anon xs) => .ok (.anon ((k, x) :: xs))
    | .ok _, .ok _ => .reject  -- unreachable

def argOf (kvs : List (String × JVal)) (k : String) : Arg :=
  match JVal.lookup k kvs with
  | some x => .val x
  | none => .notPassed

def propsOuts {ρ} (alg : Alg ρ) (env : Env) (kw : Kw) (sub : SubG ρ) (kvs : List (String × JVal)) : List (String × ρ) :=
  (visitKeys sub kvs).map fun k => resolveCall alg env kw sub k (argOf kvs k)

def propsCall (env : Env) (kw : Kw) (sub : Sub) (kvs : List (String × JVal)) : Res :=
  let outs := propsOuts resAlg env kw sub kvs
  match collectKV outs with
  | .ok (.anon l) => .ok (.anon (dictOfList l))
  | r => r

def propNamesCheck {ρ} (vd : ρ → V) (sub : SubG ρ) (kvs : List (String × JVal)) : V :=
  optCheck sub.propNames fun f => V.all (fun kv => vd (f (.val (.str kv.1)))) kvs

def depElemsCheck {ρ} (vd : ρ → V) (sub : SubG ρ) (kvs : List (String × JVal)) : V :=
  V.all (fun (d : Key × CallG ρ) =>
    if d.1.names.isSome || !(JVal.keys kvs).contains d.1.name then .pass
    else vd (d.2 (.val (.obj kvs)))) sub.deps

def depNamesOf {ρ} (sub : SubG ρ) : List (String × List String) :=
  sub.deps.filterMap fun d => d.1.names.map fun l => (d.1.name, l)

/-- `AdditionalProperties` as a *validator*.  For elements that build objects through `Properties` the construction
    step already rejects the same keys, so the validator adds nothing there; it is observable only on elements whose
    construction does not go through `Properties` (`Not`, compositions) and that were given object keywords.

    Modelled domain: the Python asks `key in __properties__`, which is `properties[key].element != Nothing()`, so a
    key whose only declaration (one property, or one matching pattern) is a `Nothing()` element counts as undeclared
    there, while here every declared or pattern-matched key is allowed.  The two agree except on a composition element
    that forbids additional properties *and* declares a `Nothing()` property — a configuration no parser or constructor
    produces (it takes an attribute assignment on a composition element); the correspondence check recognises it
    (`core.outside_additional_properties_model`) and does not consult the model there. -/
def additionalPropsCheck {ρ} (env : Env) (c : Cls) (kw : Kw) (sub : SubG ρ) (kvs : List (String × JVal)) : V :=
  match c with
  | .not | .anyOf | .oneOf | .allOf =>
    -- an element-valued `additionalProperties` is truthy (a `Nothing()` element there behaves like `False`; the
    -- harness writes `False` in that case)
    let falsy := match sub.addProps with
      | some _ => false
      | none => !kw.addPropsB
    if !falsy then .pass
    else V.ofBool (kvs.all fun kv =>
      (sub.props.any fun p => p.1.src == kv.1) || (sub.patProps.any fun p => env.re p.1.name kv.1))
  | _ => .pass

/-! ### `create` = validators, then `construct` -/

def validators {ρ} (vd : ρ → V) (env : Env) (c : Cls) (kw : Kw) (sub : SubG ρ) (v : JVal) : V :=
  (V.ofBool (typeOk c v)).and <|
  (literalChecks kw v).and <|
  match v with
  | .num x => numChecks kw x
  | .str s => strChecks env kw s
  | .arr xs => (arrChecks kw xs).and <| (additionalItemsCheck kw sub xs).and <| containsCheck vd sub xs
  | .obj kvs =>
    (objChecks kw (sub.props.map fun p => (p.1, p.2.1)) (depNamesOf sub) kvs).and <|
    (propNamesCheck vd sub kvs).and <| (depElemsCheck vd sub kvs).and <| additionalPropsCheck env c kw sub kvs
  | _ => .pass

def scalarConv : JVal → RVal
  | .null => .null
  | .bool b => .bool b
  | .num n => .num n
  | .str s => .str s
  | v => .raw v

def construct (env : Env) (c : Cls) (kw : Kw) (sub : Sub) (v : JVal) : Res :=
  match c with
  | .not =>
    match sub.elements with
    | [f] => (match f (.val v) with
      | .ok _ => .reject
      | .reject => .ok (.raw v)
      | .crash => .crash)
    | _ => .reject
  | .anyOf => attempt .anyOf (sub.elements.map fun f => f (.val v))
  | .oneOf => attempt .oneOf (sub.elements.map fun f => f (.val v))
  | .allOf => attempt .allOf (sub.elements.map fun f => f (.val v))
  | .number =>
    match v with
    | .num n => (match asDouble n with
      | none => .crash
      | some d => .ok (.num d))
    | _ => .reject
  | .object name =>
    match v with
    | .obj kvs => (match propsCall env kw sub kvs with
      | .ok (.anon l) => .ok (.inst name l)
      | r => r)
    | _ => .reject
  | _ =>
    match v with
    | .arr xs => itemsCall kw sub xs
    | .obj kvs => propsCall env kw sub kvs
    | v => .ok (scalarConv v)

def create (env : Env) (c : Cls) (kw : Kw) (sub : Sub) (v : JVal) : Res :=
  Res.guard (validators Res.verdict env c kw sub v) (construct env c kw sub v)

/-- `Element.__call__` / `Object.__new__` + `__init__` -/
def callCore (env : Env) (c : Cls) (kw : Kw) (sub : Sub) (a : Arg) : Res :=
  match a with
  | .val v => create env c kw sub v
  | .notPassed =>
    match kw.default with
    | none => .ok .notPassed
    | some d =>
      match create env c kw sub d with
      | .ok r => .ok r
      | .reject => .ok (.raw d)
      | .crash => .crash

/-- is the optional element a `Nothing()` -/
def isNothingOpt : Option Elem → Bool
  | some e => e.cls == .nothing
  | none => false

/-! ### Tying the knot: structural recursion over the element tree -/
mutual
def Elem.call (env : Env) : Elem → Arg → Res
  | .mk c kw items addI cont props pats addP pn deps els =>
    callCore env c kw
      { items := callList env items
        addItems := callAddl env addI
        contains := callOpt env cont
        props := callProps env props
        patProps := callKeyed env pats
        addProps := callOpt env addP
        propNames := callOpt env pn
        deps := callKeyed env deps
        elements := callList env els }
def callOpt (env : Env) : Option Elem → Option Call
  | none => none
  | some e => some (Elem.call env e)
def callAddl (env : Env) : Option Elem → Option (Bool × Call)
  | none => none
  | some e => some (e.cls != .nothing, Elem.call env e)
def callList (env : Env) : List Elem → List Call
  | [] => []
  | e :: es => Elem.call env e :: callList env es
def callKeyed (env : Env) : List (Key × Elem) → List (Key × Call)
  | [] => []
  | (k, e) :: r => (k, Elem.call env e) :: callKeyed env r
def callProps (env : Env) : List (Key × Elem) → List (Key × Option JVal × Call)
  | [] => []
  | (k, e) :: r => (k, e.kw.default, Elem.call env e) :: callProps env r
end

/-- the verdict on a passed value -/
def Elem.accepts (env : Env) (e : Elem) (v : JVal) : Bool := (e.call env (.val v)).isOk

end Statham
